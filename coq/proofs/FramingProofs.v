(* The stream de-framer (networking/remote_peer.py MessageReceiver.receive, model/Framing.v) refines the declarative
   grammar [parse_stream] of the byte stream for EVERY fragmentation of that stream into read chunks.

   Main results: [receive_spec] (one call), [feed_spec] (a whole connection), [chunking_independent], [one_shot],
   [one_shot_bytewise], and grammar facts [parse_app], [parse_rest_stuck]. *)
From Coq Require Import NArith List Lia ZArith Bool Arith.
From Coq Require Import ZifyBool ZifyN ZifyNat.
From SkV Require Import Bytes Framing.
Import ListNotations.
Open Scope N_scope.
Ltac Zify.zify_post_hook ::= Z.to_euclidean_division_equations.

(* ---------- lists ---------- *)
Lemma firstn_app_le {A} n (a b : list A) : (n <= length a)%nat -> firstn n (a ++ b) = firstn n a.
Proof. intros H. rewrite firstn_app. replace (n - length a)%nat with 0%nat by lia. cbn [firstn]. apply app_nil_r. Qed.

Lemma skipn_app_le {A} n (a b : list A) : (n <= length a)%nat -> skipn n (a ++ b) = skipn n a ++ b.
Proof. intros H. rewrite skipn_app. replace (n - length a)%nat with 0%nat by lia. reflexivity. Qed.

Lemma wf_app a b : bytes_wf a -> bytes_wf b -> bytes_wf (a ++ b).
Proof. intros Ha Hb. apply Forall_app; split; assumption. Qed.

Lemma wf_firstn n a : bytes_wf a -> bytes_wf (firstn n a).
Proof. intros H. unfold bytes_wf in *. rewrite <- (firstn_skipn n a) in H. apply Forall_app in H. tauto. Qed.

Lemma wf_skipn n a : bytes_wf a -> bytes_wf (skipn n a).
Proof. intros H. unfold bytes_wf in *. rewrite <- (firstn_skipn n a) in H. apply Forall_app in H. tauto. Qed.

(* ---------- bytes_eqb ---------- *)
Lemma bytes_eqb_eq a b : bytes_eqb a b = true <-> a = b.
Proof.
  revert b; induction a as [|x a IH]; intros [|y b]; cbn [bytes_eqb]; try (split; congruence).
  rewrite andb_true_iff, N.eqb_eq, IH. split.
  - intros [-> ->]; reflexivity.
  - intros H; injection H; auto.
Qed.

(* ---------- fixed-width big-endian ---------- *)
Lemma be_dec_aux_snoc acc a b : be_dec_aux acc (a ++ [b]) = be_dec_aux acc a * 256 + b.
Proof. revert acc; induction a as [|x a IH]; intros acc; cbn [app be_dec_aux]; [reflexivity | apply IH]. Qed.

Lemma be_enc_nat_length w v : length (be_enc_nat w v) = w.
Proof.
  revert v; induction w as [|w IH]; intros v; cbn [be_enc_nat]; [reflexivity|].
  rewrite app_length, IH. cbn [length]. lia.
Qed.

Lemma be_enc_length w v : length (be_enc w v) = w.
Proof. apply be_enc_nat_length. Qed.

Lemma be_dec_enc w v : v < 256 ^ N.of_nat w -> be_dec (be_enc w v) = v.
Proof.
  unfold be_dec, be_enc. revert v; induction w as [|w IH]; intros v Hv.
  - change (256 ^ N.of_nat 0) with 1 in Hv. cbn [be_enc_nat be_dec_aux]. lia.
  - cbn [be_enc_nat]. rewrite be_dec_aux_snoc, IH.
    + lia.
    + rewrite Nat2N.inj_succ, N.pow_succ_r' in Hv. apply N.div_lt_upper_bound; lia.
Qed.

Lemma be_enc_dec_gen h : forall k acc, bytes_wf h ->
  be_enc_nat (length h + k) (be_dec_aux acc h) = be_enc_nat k acc ++ h.
Proof.
  induction h as [|b h IH] using rev_ind; intros k acc Hwf.
  - cbn [length be_dec_aux plus]. rewrite app_nil_r. reflexivity.
  - apply Forall_app in Hwf. destruct Hwf as [Hh Hb]. inversion Hb as [|? ? Hb256 _]; subst.
    rewrite app_length. cbn [length].
    replace (length h + 1 + k)%nat with (S (length h + k)) by lia.
    cbn [be_enc_nat]. rewrite be_dec_aux_snoc.
    replace ((be_dec_aux acc h * 256 + b) / 256) with (be_dec_aux acc h) by lia.
    replace ((be_dec_aux acc h * 256 + b) mod 256) with b by lia.
    rewrite IH by assumption. rewrite <- app_assoc. reflexivity.
Qed.

Lemma be_enc_dec h : bytes_wf h -> be_enc (length h) (be_dec h) = h.
Proof.
  intros Hwf. unfold be_enc, be_dec. replace (length h) with (length h + 0)%nat by lia.
  rewrite be_enc_dec_gen by assumption. reflexivity.
Qed.

Lemma be_dec_lt4 h : length h = 4%nat -> bytes_wf h -> be_dec h < 4294967296.
Proof.
  destruct h as [|a [|b [|c [|d [|]]]]]; try discriminate. intros _ Hwf.
  unfold bytes_wf in Hwf. repeat rewrite Forall_cons_iff in Hwf.
  unfold be_dec; cbn [be_dec_aux]. lia.
Qed.

(* ====================================================================================================== *)
Section Proofs.
  Variable max : N.

  (* ---------- the grammar: fuel independence and an unfolding equation ---------- *)
  Definition parse_body (rec : bytes -> list bytes * option rerr * bytes) (bs : bytes)
    : list bytes * option rerr * bytes :=
    if (length bs <? 4)%nat then ([], None, bs)
    else if negb (bytes_eqb (firstn 4 bs) MAGIC) then ([], Some BadMagic, bs)
    else let r := skipn 4 bs in
      if (length r <? 4)%nat then ([], None, bs)
      else let n := be_dec (firstn 4 r) in
        if max <? n then ([], Some TooLong, bs)
        else let p := skipn 4 r in
          if (length p <? N.to_nat n)%nat then ([], None, bs)
          else let '(fs, e, rest) := rec (skipn (N.to_nat n) p) in
               (firstn (N.to_nat n) p :: fs, e, rest).

  Lemma parse_S f bs : parse max (S f) bs = parse_body (parse max f) bs.
  Proof. reflexivity. Qed.

  Lemma parse_body_ext rec1 rec2 bs :
    (forall x, (length x < length bs)%nat -> rec1 x = rec2 x) -> parse_body rec1 bs = parse_body rec2 bs.
  Proof.
    intros H. unfold parse_body.
    destruct (length bs <? 4)%nat eqn:E1; [reflexivity|].
    destruct (negb (bytes_eqb (firstn 4 bs) MAGIC)); [reflexivity|]. cbv zeta.
    destruct (length (skipn 4 bs) <? 4)%nat eqn:E2; [reflexivity|].
    destruct (max <? be_dec (firstn 4 (skipn 4 bs))); [reflexivity|].
    destruct (length (skipn 4 (skipn 4 bs)) <? _)%nat eqn:E3; [reflexivity|].
    rewrite H; [reflexivity|]. rewrite !skipn_length in *. lia.
  Qed.

  Lemma parse_fuel f1 : forall f2 bs, (length bs < f1)%nat -> (length bs < f2)%nat ->
    parse max f1 bs = parse max f2 bs.
  Proof.
    induction f1 as [|f1 IH]; intros f2 bs H1 H2; [lia|].
    destruct f2 as [|f2]; [lia|]. rewrite !parse_S. apply parse_body_ext.
    intros x Hx. apply IH; lia.
  Qed.

  Lemma parse_stream_eq bs : parse_stream max bs = parse_body (parse_stream max) bs.
  Proof.
    unfold parse_stream at 1. rewrite parse_S. apply parse_body_ext.
    intros x Hx. unfold parse_stream. apply parse_fuel; lia.
  Qed.

  (* ---------- the grammar, case by case ---------- *)
  Lemma parse_short bs : (length bs < 4)%nat -> parse_stream max bs = ([], None, bs).
  Proof.
    intros H. rewrite parse_stream_eq. unfold parse_body.
    apply Nat.ltb_lt in H. rewrite H. reflexivity.
  Qed.

  Lemma parse_badmagic bs : (4 <= length bs)%nat -> bytes_eqb (firstn 4 bs) MAGIC = false ->
    parse_stream max bs = ([], Some BadMagic, bs).
  Proof.
    intros H Hm. rewrite parse_stream_eq. unfold parse_body.
    apply Nat.ltb_ge in H. rewrite H, Hm. reflexivity.
  Qed.

  Lemma parse_magic r : parse_stream max (MAGIC ++ r) =
    if (length r <? 4)%nat then ([], None, MAGIC ++ r)
    else if max <? be_dec (firstn 4 r) then ([], Some TooLong, MAGIC ++ r)
    else if (length (skipn 4 r) <? N.to_nat (be_dec (firstn 4 r)))%nat then ([], None, MAGIC ++ r)
    else let '(fs, e, rest) := parse_stream max (skipn (N.to_nat (be_dec (firstn 4 r))) (skipn 4 r)) in
         (firstn (N.to_nat (be_dec (firstn 4 r))) (skipn 4 r) :: fs, e, rest).
  Proof.
    rewrite (parse_stream_eq (MAGIC ++ r)). unfold parse_body. cbv zeta.
    replace (length (MAGIC ++ r) <? 4)%nat with false by reflexivity.
    replace (firstn 4 (MAGIC ++ r)) with MAGIC by reflexivity.
    replace (skipn 4 (MAGIC ++ r)) with r by reflexivity.
    replace (bytes_eqb MAGIC MAGIC) with true by reflexivity.
    reflexivity.
  Qed.

  Lemma parse_hdr h p : length h = 4%nat -> parse_stream max (MAGIC ++ h ++ p) =
    if max <? be_dec h then ([], Some TooLong, MAGIC ++ h ++ p)
    else if (length p <? N.to_nat (be_dec h))%nat then ([], None, MAGIC ++ h ++ p)
    else let '(fs, e, rest) := parse_stream max (skipn (N.to_nat (be_dec h)) p) in
         (firstn (N.to_nat (be_dec h)) p :: fs, e, rest).
  Proof.
    intros Hh. rewrite parse_magic.
    destruct h as [|a [|b [|c [|d [|]]]]]; try discriminate.
    replace (length ([a; b; c; d] ++ p) <? 4)%nat with false by reflexivity.
    replace (firstn 4 ([a; b; c; d] ++ p)) with [a; b; c; d] by reflexivity.
    replace (skipn 4 ([a; b; c; d] ++ p)) with p by reflexivity.
    reflexivity.
  Qed.

  (* ---------- the grammar is prefix-monotone: more bytes only extend the parse at its unconsumed tail ---------- *)
  Lemma parse_app_aux : forall k a, (length a < k)%nat -> forall b fs e r,
    parse_stream max a = (fs, e, r) ->
    parse_stream max (a ++ b) =
      match e with
      | None => let '(fs', e', r') := parse_stream max (r ++ b) in (fs ++ fs', e', r')
      | Some err => (fs, Some err, r ++ b)
      end.
  Proof.
    induction k as [|k IH]; intros a Hk b fs e r H; [lia|].
    rewrite parse_stream_eq in H. unfold parse_body in H. cbv zeta in H.
    destruct (length a <? 4)%nat eqn:E1.
    { injection H as <- <- <-. destruct (parse_stream max (a ++ b)) as [[fs' e'] r']. reflexivity. }
    destruct (bytes_eqb (firstn 4 a) MAGIC) eqn:Em; cbn [negb] in H.
    2:{ injection H as <- <- <-. apply parse_badmagic.
        - rewrite app_length. lia.
        - rewrite firstn_app_le by lia. exact Em. }
    destruct (length (skipn 4 a) <? 4)%nat eqn:E2.
    { injection H as <- <- <-. destruct (parse_stream max (a ++ b)) as [[fs' e'] r']. reflexivity. }
    assert (L1 : (4 <= length a)%nat) by lia.
    assert (L2 : (4 <= length (skipn 4 a))%nat) by lia.
    assert (G1 : (length (a ++ b) <? 4)%nat = false) by (rewrite app_length; lia).
    assert (G2 : (length (skipn 4 a ++ b) <? 4)%nat = false) by (rewrite app_length; lia).
    destruct (max <? be_dec (firstn 4 (skipn 4 a))) eqn:E3.
    { injection H as <- <- <-.
      rewrite (parse_stream_eq (a ++ b)). unfold parse_body. cbv zeta.
      rewrite (firstn_app_le 4 a b), (skipn_app_le 4 a b) by lia.
      rewrite (firstn_app_le 4 (skipn 4 a) b) by lia.
      rewrite G1, Em, G2, E3. reflexivity. }
    destruct (length (skipn 4 (skipn 4 a)) <? N.to_nat (be_dec (firstn 4 (skipn 4 a))))%nat eqn:E4.
    { injection H as <- <- <-. destruct (parse_stream max (a ++ b)) as [[fs' e'] r']. reflexivity. }
    set (n := N.to_nat (be_dec (firstn 4 (skipn 4 a)))) in *.
    set (p := skipn 4 (skipn 4 a)) in *.
    destruct (parse_stream max (skipn n p)) as [[fs0 e0] r0] eqn:E5.
    injection H as <- <- <-.
    assert (L3 : (n <= length p)%nat) by lia.
    assert (G3 : (length (p ++ b) <? n)%nat = false) by (rewrite app_length; lia).
    assert (Hlen : (length (skipn n p) < k)%nat).
    { unfold p. rewrite !skipn_length. unfold p in L3. rewrite !skipn_length in L3. lia. }
    specialize (IH (skipn n p) Hlen b fs0 e0 r0 E5).
    rewrite (parse_stream_eq (a ++ b)). unfold parse_body. cbv zeta.
    rewrite (firstn_app_le 4 a b), (skipn_app_le 4 a b) by lia.
    rewrite (firstn_app_le 4 (skipn 4 a) b), (skipn_app_le 4 (skipn 4 a) b) by lia.
    fold p. fold n.
    rewrite G1, Em, G2, E3. cbn [negb]. rewrite G3.
    rewrite (skipn_app_le n p b), (firstn_app_le n p b) by lia.
    rewrite IH. destruct e0.
    - reflexivity.
    - destruct (parse_stream max (r0 ++ b)) as [[fs' e'] r']. reflexivity.
  Qed.

  Theorem parse_app a b fs e r :
    parse_stream max a = (fs, e, r) ->
    parse_stream max (a ++ b) =
      match e with
      | None => let '(fs', e', r') := parse_stream max (r ++ b) in (fs ++ fs', e', r')
      | Some err => (fs, Some err, r ++ b)
      end.
  Proof. apply (parse_app_aux (S (length a))). lia. Qed.

  (* the unconsumed tail of an un-refused stream is itself a stream with no complete frame and no refusal *)
  Theorem parse_rest_stuck a fs r :
    parse_stream max a = (fs, None, r) -> parse_stream max r = ([], None, r).
  Proof.
    intros H. pose proof (parse_app a [] fs None r H) as Ha. rewrite !app_nil_r in Ha. rewrite H in Ha.
    destruct (parse_stream max r) as [[fs' e'] r']. injection Ha as H1 H2 H3. subst e' r'.
    rewrite <- (app_nil_r fs) in H1 at 1. apply app_inv_head in H1. subst fs'. reflexivity.
  Qed.

  (* ---------- the receiver ---------- *)
  (* invariant of every state a live connection can be in (after a TooLong refusal the state violates it,
     but then the connection is closed) *)
  Definition Inv (st : rstate) : Prop :=
    bytes_wf (r_buf st) /\
    (r_magic st = false -> r_len st = None) /\
    (forall n, r_len st = Some n -> n <= max /\ n < 4294967296).

  Lemma Inv_None buf m : bytes_wf buf -> Inv (mkR buf m None).
  Proof.
    intros Hwf. unfold Inv. cbn [r_buf r_magic r_len]. split; [exact Hwf|]. split.
    - intros _. reflexivity.
    - intros n Hn. discriminate Hn.
  Qed.

  Lemma Inv_Some buf n : bytes_wf buf -> n <= max -> n < 4294967296 -> Inv (mkR buf true (Some n)).
  Proof.
    intros Hwf H1 H2. unfold Inv. cbn [r_buf r_magic r_len]. split; [exact Hwf|]. split.
    - intros Hm. discriminate Hm.
    - intros n' Hn. injection Hn as <-. split; assumption.
  Qed.

  Definition fuel_ok (fuel : nat) (st : rstate) : Prop :=
    (length (r_buf st) < fuel + (if r_magic st then 0 else 4))%nat.

  (* what one run of the loop achieves with respect to the stream [s] the start state stands for *)
  Definition post (s : bytes) (res : rstate * list bytes * option rerr) : Prop :=
    let '(st', fs, e) := res in
    match e with
    | None => Inv st' /\ parse_stream max s = (fs, None, pending st')
    | Some err => exists r, parse_stream max s = (fs, Some err, r)
    end.

  Lemma loopC f buf n : recv_loop max (S f) (mkR buf true (Some n)) =
    if (N.to_nat n <=? length buf)%nat then
      let '(st', fs, e) := recv_loop max f (mkR (skipn (N.to_nat n) buf) false None) in
      (st', firstn (N.to_nat n) buf :: fs, e)
    else (mkR buf true (Some n), [], None).
  Proof. reflexivity. Qed.

  Lemma loopB f buf : recv_loop max (S f) (mkR buf true None) =
    if (4 <=? length buf)%nat then
      if max <? be_dec (firstn 4 buf) then (mkR buf true (Some (be_dec (firstn 4 buf))), [], Some TooLong)
      else recv_loop max (S f) (mkR (skipn 4 buf) true (Some (be_dec (firstn 4 buf))))
    else (mkR buf true None, [], None).
  Proof.
    cbn [recv_loop r_magic r_len r_buf negb andb].
    destruct (4 <=? length buf)%nat; [destruct (max <? be_dec (firstn 4 buf))|]; reflexivity.
  Qed.

  Lemma loopA f buf : recv_loop max (S f) (mkR buf false None) =
    if (4 <=? length buf)%nat then
      if bytes_eqb (firstn 4 buf) MAGIC then recv_loop max (S f) (mkR (skipn 4 buf) true None)
      else (mkR buf false None, [], Some BadMagic)
    else (mkR buf false None, [], None).
  Proof.
    cbn [recv_loop r_magic r_len r_buf negb andb].
    destruct (4 <=? length buf)%nat eqn:E; cbn [r_magic r_len r_buf negb andb];
      [destruct (bytes_eqb (firstn 4 buf) MAGIC); cbn [r_magic r_len r_buf negb andb]|]; rewrite ?E; reflexivity.
  Qed.

  Lemma pendingA buf : pending (mkR buf false None) = buf.
  Proof. reflexivity. Qed.
  Lemma pendingB buf : pending (mkR buf true None) = MAGIC ++ buf.
  Proof. reflexivity. Qed.
  Lemma pendingC buf n : pending (mkR buf true (Some n)) = MAGIC ++ be_enc 4 n ++ buf.
  Proof. reflexivity. Qed.

  Lemma recv_loop_post : forall fuel st, Inv st -> fuel_ok fuel st -> post (pending st) (recv_loop max fuel st).
  Proof.
    induction fuel as [|f IH].
    { intros [buf m l] [Hwf [Hml Hl]] Hf. unfold fuel_ok in Hf. cbn [r_buf r_magic r_len] in *.
      destruct m; [lia|]. rewrite (Hml eq_refl) in *.
      cbn [recv_loop post]. split.
      - apply Inv_None; exact Hwf.
      - rewrite pendingA. apply parse_short. lia. }
    (* state C: magic and length known *)
    assert (HC : forall buf n, Inv (mkR buf true (Some n)) -> fuel_ok (S f) (mkR buf true (Some n)) ->
                 post (MAGIC ++ be_enc 4 n ++ buf) (recv_loop max (S f) (mkR buf true (Some n)))).
    { intros buf n [Hwf [Hml Hl]] Hf. unfold fuel_ok in Hf. cbn [r_buf r_magic r_len] in *.
      destruct (Hl n eq_refl) as [Hmax H32].
      assert (Ed : be_dec (be_enc 4 n) = n) by (apply be_dec_enc; exact H32).
      assert (Em : (max <? n) = false) by (apply N.ltb_ge; exact Hmax).
      rewrite loopC. destruct (N.to_nat n <=? length buf)%nat eqn:E.
      - assert (El : (length buf <? N.to_nat n)%nat = false) by lia.
        assert (HI : Inv (mkR (skipn (N.to_nat n) buf) false None)).
        { apply Inv_None. apply wf_skipn; exact Hwf. }
        assert (HF : fuel_ok f (mkR (skipn (N.to_nat n) buf) false None)).
        { unfold fuel_ok. cbn [r_buf r_magic]. rewrite skipn_length. lia. }
        specialize (IH _ HI HF). rewrite pendingA in IH.
        destruct (recv_loop max f (mkR (skipn (N.to_nat n) buf) false None)) as [[st' fs] e].
        unfold post in *. rewrite parse_hdr by apply be_enc_length. rewrite Ed, Em, El.
        destruct e as [err|].
        + destruct IH as [r Hr]. exists r. rewrite Hr. reflexivity.
        + destruct IH as [HI' Hp]. split; [exact HI'|]. rewrite Hp. reflexivity.
      - assert (El : (length buf <? N.to_nat n)%nat = true) by lia.
        unfold post. split.
        + apply Inv_Some; assumption.
        + rewrite parse_hdr by apply be_enc_length. rewrite Ed, Em, El. reflexivity. }
    (* state B: magic known *)
    assert (HB : forall buf, Inv (mkR buf true None) -> fuel_ok (S f) (mkR buf true None) ->
                 post (MAGIC ++ buf) (recv_loop max (S f) (mkR buf true None))).
    { intros buf [Hwf _] Hf. unfold fuel_ok in Hf. cbn [r_buf r_magic r_len] in *.
      rewrite loopB. destruct (4 <=? length buf)%nat eqn:E.
      - assert (El : (length buf <? 4)%nat = false) by lia.
        assert (Hh : length (firstn 4 buf) = 4%nat) by (rewrite firstn_length; lia).
        assert (Hhw : bytes_wf (firstn 4 buf)) by (apply wf_firstn; exact Hwf).
        destruct (max <? be_dec (firstn 4 buf)) eqn:Em.
        + unfold post. exists (MAGIC ++ buf). rewrite parse_magic, El, Em. reflexivity.
        + assert (HI : Inv (mkR (skipn 4 buf) true (Some (be_dec (firstn 4 buf))))).
          { apply Inv_Some.
            - apply wf_skipn; exact Hwf.
            - apply N.ltb_ge. exact Em.
            - apply be_dec_lt4; assumption. }
          assert (HF : fuel_ok (S f) (mkR (skipn 4 buf) true (Some (be_dec (firstn 4 buf))))).
          { unfold fuel_ok. cbn [r_buf r_magic]. rewrite skipn_length. lia. }
          specialize (HC _ _ HI HF).
          rewrite <- Hh in HC at 1. rewrite be_enc_dec in HC by exact Hhw.
          rewrite firstn_skipn in HC. exact HC.
      - assert (El : (length buf <? 4)%nat = true) by lia.
        unfold post. split.
        + apply Inv_None; exact Hwf.
        + rewrite parse_magic, El. reflexivity. }
    (* state A: nothing known *)
    assert (HA : forall buf, Inv (mkR buf false None) -> fuel_ok (S f) (mkR buf false None) ->
                 post buf (recv_loop max (S f) (mkR buf false None))).
    { intros buf [Hwf _] Hf. unfold fuel_ok in Hf. cbn [r_buf r_magic r_len] in *.
      rewrite loopA. destruct (4 <=? length buf)%nat eqn:E.
      - destruct (bytes_eqb (firstn 4 buf) MAGIC) eqn:Em.
        + assert (HI : Inv (mkR (skipn 4 buf) true None)).
          { apply Inv_None. apply wf_skipn; exact Hwf. }
          assert (HF : fuel_ok (S f) (mkR (skipn 4 buf) true None)).
          { unfold fuel_ok. cbn [r_buf r_magic]. rewrite skipn_length. lia. }
          specialize (HB _ HI HF). apply bytes_eqb_eq in Em. rewrite <- Em in HB at 1.
          rewrite firstn_skipn in HB. exact HB.
        + unfold post. exists buf. apply parse_badmagic; [lia | exact Em].
      - unfold post. split.
        + apply Inv_None; exact Hwf.
        + rewrite pendingA. apply parse_short. lia. }
    intros [buf m l] HI Hf. destruct m.
    - destruct l as [n|]; [rewrite pendingC; apply HC | rewrite pendingB; apply HB]; assumption.
    - destruct HI as [Hwf [Hml Hl]]. cbn [r_buf r_magic r_len] in *. rewrite (Hml eq_refl) in *.
      rewrite pendingA. apply HA; [|exact Hf]. apply Inv_None; exact Hwf.
  Qed.

  Lemma Inv_init : Inv r_init.
  Proof. apply Inv_None. constructor. Qed.

  (* ---------- one call of receive ---------- *)
  Theorem receive_spec st d : Inv st -> bytes_wf d ->
    let '(st', fs, e) := receive max st d in
    match e with
    | None => Inv st' /\ parse_stream max (pending st ++ d) = (fs, None, pending st')
    | Some err => exists r, parse_stream max (pending st ++ d) = (fs, Some err, r)
    end.
  Proof.
    intros [Hwf [Hml Hl]] Hd. unfold receive.
    set (st0 := mkR (r_buf st ++ d) (r_magic st) (r_len st)).
    assert (Hp : pending st ++ d = pending st0).
    { unfold pending, st0. cbn [r_buf r_magic r_len]. rewrite <- !app_assoc. reflexivity. }
    rewrite Hp. apply (recv_loop_post (S (length (r_buf st0))) st0).
    - unfold Inv, st0. cbn [r_buf r_magic r_len]. split; [apply wf_app; assumption|]. split; assumption.
    - unfold fuel_ok. destruct (r_magic st0); lia.
  Qed.

  (* ---------- a whole connection ---------- *)
  Lemma feed_gen : forall chunks st, Inv st -> parse_stream max (pending st) = ([], None, pending st) ->
    Forall bytes_wf chunks ->
    let '(fs, e, st') := feed max st chunks in
    let '(fs', e', rest) := parse_stream max (pending st ++ concat chunks) in
    fs = fs' /\ e = e' /\ (e = None -> pending st' = rest).
  Proof.
    induction chunks as [|c cs IH]; intros st HI Hstuck Hwf.
    - cbn [feed concat]. rewrite app_nil_r, Hstuck. auto.
    - inversion Hwf as [|? ? Hc Hcs]; subst. cbn [feed concat].
      pose proof (receive_spec st c HI Hc) as Hr.
      destruct (receive max st c) as [[st1 fs1] e1]. destruct e1 as [err|].
      + destruct Hr as [r Hr]. rewrite app_assoc.
        rewrite (parse_app _ (concat cs) _ _ _ Hr). repeat split. discriminate.
      + destruct Hr as [HI1 Hr].
        specialize (IH st1 HI1 (parse_rest_stuck _ _ _ Hr) Hcs).
        rewrite app_assoc. rewrite (parse_app _ (concat cs) _ _ _ Hr).
        destruct (feed max st1 cs) as [[fs2 e2] st2].
        destruct (parse_stream max (pending st1 ++ concat cs)) as [[fs' e'] rest].
        destruct IH as [-> [-> Hrest]]. auto.
  Qed.

  Theorem feed_spec : forall chunks, Forall bytes_wf chunks ->
    let '(fs, e, st) := feed max r_init chunks in
    let '(fs', e', rest) := parse_stream max (concat chunks) in
    fs = fs' /\ e = e' /\ (e = None -> pending st = rest).
  Proof.
    intros chunks Hwf. apply (feed_gen chunks r_init Inv_init); [reflexivity | exact Hwf].
  Qed.

  Corollary chunking_independent : forall c1 c2, Forall bytes_wf c1 -> Forall bytes_wf c2 ->
    concat c1 = concat c2 ->
    fst (fst (feed max r_init c1)) = fst (fst (feed max r_init c2)) /\
    snd (fst (feed max r_init c1)) = snd (fst (feed max r_init c2)).
  Proof.
    intros c1 c2 H1 H2 Hc.
    pose proof (feed_spec c1 H1) as F1. pose proof (feed_spec c2 H2) as F2. rewrite Hc in F1.
    destruct (feed max r_init c1) as [[fs1 e1] st1]. destruct (feed max r_init c2) as [[fs2 e2] st2].
    destruct (parse_stream max (concat c2)) as [[fs' e'] rest].
    destruct F1 as [-> [-> _]]. destruct F2 as [-> [-> _]]. split; reflexivity.
  Qed.

  (* ... and the receiver states agree too as far as the bytes they stand for are concerned *)
  Corollary chunking_independent_pending : forall c1 c2, Forall bytes_wf c1 -> Forall bytes_wf c2 ->
    concat c1 = concat c2 -> snd (fst (feed max r_init c1)) = None ->
    pending (snd (feed max r_init c1)) = pending (snd (feed max r_init c2)).
  Proof.
    intros c1 c2 H1 H2 Hc.
    pose proof (feed_spec c1 H1) as F1. pose proof (feed_spec c2 H2) as F2. rewrite Hc in F1.
    destruct (feed max r_init c1) as [[fs1 e1] st1]. destruct (feed max r_init c2) as [[fs2 e2] st2].
    destruct (parse_stream max (concat c2)) as [[fs' e'] rest]. cbn [fst snd]. intros He.
    destruct F1 as [_ [E1 R1]]. destruct F2 as [_ [E2 R2]]. subst e1. subst e'.
    rewrite (R1 He), (R2 He). reflexivity.
  Qed.

  Corollary one_shot : forall bs, bytes_wf bs ->
    let '(fs, e, st) := feed max r_init [bs] in
    let '(fs', e', rest) := parse_stream max bs in
    fs = fs' /\ e = e' /\ (e = None -> pending st = rest).
  Proof.
    intros bs Hwf. pose proof (feed_spec [bs] (Forall_cons _ Hwf (Forall_nil _))) as F.
    cbn [concat] in F. rewrite app_nil_r in F. exact F.
  Qed.

  Lemma concat_singletons (bs : bytes) : concat (map (fun b => [b]) bs) = bs.
  Proof. induction bs as [|b bs IH]; cbn [map concat app]; [reflexivity | rewrite IH; reflexivity]. Qed.

  Corollary one_shot_bytewise : forall bs, bytes_wf bs ->
    let '(fs, e, st) := feed max r_init (map (fun b => [b]) bs) in
    let '(fs', e', rest) := parse_stream max bs in
    fs = fs' /\ e = e' /\ (e = None -> pending st = rest).
  Proof.
    intros bs Hwf. assert (H : Forall bytes_wf (map (fun b => [b]) bs)).
    { apply Forall_map. unfold bytes_wf in Hwf. eapply Forall_impl; [|exact Hwf].
      intros b Hb. constructor; [exact Hb | constructor]. }
    pose proof (feed_spec _ H) as F. rewrite concat_singletons in F. exact F.
  Qed.
End Proofs.

(* ---------- non-vacuity ---------- *)
(* two framed messages [1;2;3] and [9;8]; cuts inside the first magic and inside the first payload *)
Example feed_two_frames :
  feed 100 r_init [ [77; 65];
                    [74; 73; 0; 0; 0; 3; 1; 2];
                    [3; 77; 65; 74; 73; 0; 0; 0; 2; 9; 8] ]
  = ([ [1; 2; 3]; [9; 8] ], None, r_init).
Proof. vm_compute. reflexivity. Qed.

Example parse_two_frames :
  parse_stream 100 ([77; 65; 74; 73; 0; 0; 0; 3; 1; 2; 3] ++ [77; 65; 74; 73; 0; 0; 0; 2; 9; 8])
  = ([ [1; 2; 3]; [9; 8] ], None, []).
Proof. vm_compute. reflexivity. Qed.

(* a partial third message stays pending *)
Example feed_partial_tail :
  let '(fs, e, st) := feed 100 r_init [ [77; 65; 74; 73; 0; 0; 0; 1; 5; 77; 65; 74]; [73; 0; 0; 0; 7; 1; 2] ] in
  fs = [ [5] ] /\ e = None /\ pending st = [77; 65; 74; 73; 0; 0; 0; 7; 1; 2].
Proof. vm_compute. repeat split. Qed.

(* refusals: one frame, then a bad magic; one frame, then an over-long announcement (cut inside the length) *)
Example feed_bad_magic :
  fst (feed 100 r_init [ [77; 65; 74; 73; 0; 0; 0; 1; 5; 77]; [65; 74; 74; 0] ]) = ([ [5] ], Some BadMagic).
Proof. vm_compute. reflexivity. Qed.

Example feed_too_long :
  fst (feed 100 r_init [ [77; 65; 74; 73; 0; 0; 0; 1; 5; 77]; [65; 74; 73; 0; 0]; [0; 101; 1] ]) = ([ [5] ], Some TooLong).
Proof. vm_compute. reflexivity. Qed.

(* why [feed_spec] relates [pending] to the unconsumed tail only when no error was raised: after TooLong the
   receiver has stored the length WITHOUT consuming its four bytes, so [pending] would count them twice *)
Example pending_after_too_long_differs :
  let '(fs, e, st) := feed 100 r_init [ [77; 65; 74; 73; 0; 0; 0; 101; 1] ] in
  let '(fs', e', rest) := parse_stream 100 [77; 65; 74; 73; 0; 0; 0; 101; 1] in
  fs = fs' /\ e = e' /\ e = Some TooLong /\ pending st <> rest.
Proof. vm_compute. repeat split. discriminate. Qed.

