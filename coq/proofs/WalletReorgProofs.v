(* C14 across head changes: the ledger view (holdings at the head) may be different at every request -- a spend was
   confirmed, a fork switch un-confirmed it, the caller went back to an older state -- while the wallet's used-set
   persists.  Inputs of successful spends are pairwise disjoint whatever the sequence of holdings. *)
From Coq Require Import NArith Arith List Lia.
From SkV Require Import WalletModel WalletProofs.
Import ListNotations.
Open Scope N_scope.

Fixpoint run_spends_at (used : list N) (reqs : list (holdings * (N * N))) : list (option spend) :=
  match reqs with
  | [] => []
  | (h, (v, f)) :: rest =>
      match create_spend used h v f with
      | Some (sp, used') => Some sp :: run_spends_at used' rest
      | None => None :: run_spends_at used rest
      end
  end.

Lemma run_spends_at_disjoint_used reqs : forall used i sp r,
  nth_error (run_spends_at used reqs) i = Some (Some sp) -> In r (sp_inputs sp) -> ~ In r used.
Proof.
  induction reqs as [|[h [v f]] reqs IH]; intros used i sp r Hn Hr.
  - destruct i; discriminate.
  - cbn [run_spends_at] in Hn. destruct (create_spend used h v f) as [[sp0 used0]|] eqn:E.
    + destruct (create_spend_fresh _ _ _ _ _ _ E) as [Hu Hf]. destruct i as [|i]; cbn in Hn.
      * inversion Hn; subst sp0. auto.
      * intros Hin. apply (IH _ _ _ _ Hn Hr). subst used0. apply in_or_app. auto.
    + destruct i as [|i]; cbn in Hn; [discriminate|]. eapply IH; eauto.
Qed.

Theorem spend_sequences_across_head_changes used reqs :
  (forall i sp r, nth_error (run_spends_at used reqs) i = Some (Some sp) -> In r (sp_inputs sp) -> ~ In r used) /\
  (forall i j sp1 sp2 r, i <> j ->
     nth_error (run_spends_at used reqs) i = Some (Some sp1) ->
     nth_error (run_spends_at used reqs) j = Some (Some sp2) ->
     In r (sp_inputs sp1) -> ~ In r (sp_inputs sp2)).
Proof.
  split; [apply run_spends_at_disjoint_used|].
  assert (Hlt : forall reqs used i j sp1 sp2 r, (i < j)%nat ->
     nth_error (run_spends_at used reqs) i = Some (Some sp1) ->
     nth_error (run_spends_at used reqs) j = Some (Some sp2) ->
     In r (sp_inputs sp1) -> ~ In r (sp_inputs sp2)).
  { clear. induction reqs as [|[h [v f]] reqs IH]; intros used i j sp1 sp2 r Hij H1 H2 Hr1 Hr2.
    - destruct i; discriminate.
    - cbn [run_spends_at] in H1, H2. destruct j as [|j]; [lia|].
      destruct (create_spend used h v f) as [[sp0 used0]|] eqn:E.
      + destruct (create_spend_fresh _ _ _ _ _ _ E) as [Hu Hf]. destruct i as [|i]; cbn in H1, H2.
        * inversion H1; subst sp0.
          apply (run_spends_at_disjoint_used _ _ _ _ _ H2 Hr2). subst used0. apply in_or_app. auto.
        * apply (IH used0 i j sp1 sp2 r); auto. lia.
      + destruct i as [|i]; cbn in H1, H2; [discriminate|]. apply (IH used i j sp1 sp2 r); auto. lia. }
  intros i j sp1 sp2 r Hij H1 H2 Hr1 Hr2.
  destruct (Nat.lt_total i j) as [Hc|[Hc|Hc]]; [|contradiction|].
  - exact (Hlt reqs used i j sp1 sp2 r Hc H1 H2 Hr1 Hr2).
  - exact (Hlt reqs used j i sp2 sp1 r Hc H2 H1 Hr2 Hr1).
Qed.

(* the variant that forgets used references which are not in the current holdings (pruning the record to the head)
   re-spends an input after a fork switch: confirmed at head 2, un-confirmed again at head 3 *)
Definition create_spend_pruning (used : list N) (h : holdings) (value fee : N) : option (spend * list N) :=
  match create_spend used h value fee with
  | Some (sp, _) =>
      let kept := filter (fun r => existsb (N.eqb r) (map fst (all_refs h))) used in
      Some (sp, kept ++ sp_inputs sp)
  | None => None
  end.

Theorem pruning_reuses_after_fork_switch_refuted : exists h1 h2 h3 sp1 u1 sp2 u2 sp3 u3 r,
  create_spend_pruning [] h1 5 0 = Some (sp1, u1) /\
  create_spend_pruning u1 h2 5 0 = Some (sp2, u2) /\
  create_spend_pruning u2 h3 5 0 = Some (sp3, u3) /\
  In r (sp_inputs sp1) /\ In r (sp_inputs sp3).
Proof.
  exists [(1, [(11, 10); (12, 10); (13, 10)])], [(1, [(12, 10); (13, 10)])], [(1, [(11, 10); (12, 10); (13, 10)])].
  do 7 eexists. split; [vm_compute; reflexivity|]. split; [vm_compute; reflexivity|].
  split; [vm_compute; reflexivity|]. split; cbn; left; reflexivity.
Qed.
