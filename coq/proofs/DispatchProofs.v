From Coq Require Import NArith List Bool Arith.
From SkV Require Import Bytes Vlq Codec Wire Framing Dispatch.
Import ListNotations.

Section P.
  Variable max_size : N.
  Variable shared : Type.
  Variable handle : shared -> msg_header -> msg -> bool -> option shared.
  Notation on_read := (on_read max_size shared handle).
  Notation frames := (frames shared handle).
  Notation frames_partial := (frames_partial shared handle).

  Definition shared_of (o : outcome shared) : shared := match o with Keep _ _ s => s | Dropped _ s => s end.

  Lemma frames_some_partial : forall fs hl s hl' s', frames hl s fs = Some (hl', s') -> frames_partial hl s fs = s'.
  Proof.
    induction fs as [|f r IH]; intros hl s hl' s' H; cbn [Dispatch.frames Dispatch.frames_partial] in *.
    - inversion H; reflexivity.
    - destruct (dec_frame f) as [[h m]|]; [|discriminate].
      destruct (negb (is_hello m) && negb hl); [discriminate|].
      destruct (handle s h m hl) as [s1|]; [|discriminate]. eapply IH; exact H.
  Qed.

  (* whatever bytes arrive, the shared state afterwards is the one produced by the successfully handled frames *)
  Theorem read_state_is_handled_prefix : forall c s data,
    shared_of (on_read c s data) =
    frames_partial (c_hello c) s (snd (fst (receive max_size (c_recv c) data))).
  Proof.
    intros c s data. unfold Dispatch.on_read.
    destruct (receive max_size (c_recv c) data) as [[r' fs] e]. cbn [fst snd].
    destruct (frames (c_hello c) s fs) as [[hl s']|] eqn:E.
    - apply frames_some_partial in E. destruct e; cbn [shared_of]; congruence.
    - reflexivity.
  Qed.

  (* containment: every invariant of the shared state that the message handlers preserve when they SUCCEED is preserved
     by an arbitrary read of arbitrary bytes *)
  Theorem invariant_contained : forall (I : shared -> Prop),
    (forall s h m b s', I s -> handle s h m b = Some s' -> I s') ->
    forall c s data, I s -> I (shared_of (on_read c s data)).
  Proof.
    intros I HI c s data Hs. rewrite read_state_is_handled_prefix.
    generalize (c_hello c). generalize (snd (fst (receive max_size (c_recv c) data))). intros fs.
    revert s Hs. induction fs as [|f r IH]; intros s Hs hl; cbn [Dispatch.frames_partial]; [exact Hs|].
    destruct (dec_frame f) as [[h m]|]; [|exact Hs].
    destruct (negb (is_hello m) && negb hl); [exact Hs|].
    destruct (handle s h m hl) as [s1|] eqn:E; [|exact Hs]. apply IH. eapply HI; eauto.
  Qed.

  (* a read whose first frame is malformed (undecodable, out of protocol order, or refused by its handler) changes nothing
     and closes only this connection *)
  Theorem malformed_first_frame_dropped : forall c s data r' f fs e,
    receive max_size (c_recv c) data = (r', f :: fs, e) ->
    (dec_frame f = None \/
     (exists h m, dec_frame f = Some (h, m) /\
        ((is_hello m = false /\ c_hello c = false) \/ handle s h m (c_hello c) = None))) ->
    on_read c s data = Dropped shared s.
  Proof.
    intros c s data r' f fs e Hr Hbad. unfold Dispatch.on_read. rewrite Hr.
    cbn [Dispatch.frames Dispatch.frames_partial].
    destruct Hbad as [Hd | (h & m & Hd & [[Hh Hc] | Hn])]; rewrite Hd.
    - reflexivity.
    - rewrite Hh, Hc. reflexivity.
    - destruct (negb (is_hello m) && negb (c_hello c)); [reflexivity|]. rewrite Hn. reflexivity.
  Qed.

  (* broken framing with no complete frame before it: nothing changes *)
  Theorem bad_framing_dropped : forall c s data r' err,
    receive max_size (c_recv c) data = (r', [], Some err) -> on_read c s data = Dropped shared s.
  Proof. intros c s data r' err Hr. unfold Dispatch.on_read. rewrite Hr. reflexivity. Qed.
End P.
