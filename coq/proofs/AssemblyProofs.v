(* Block assembly (consensus.py construct_block_for_mining / construct_coinbase, model/Validate.v) against the node's
   own full validation (CoinState.add_block = v_block_by_itself ; v_block_in_state ; add_nv):
   every candidate the node assembles on its current head from an admissible pending pool passes the node's own
   validation as soon as the nonce is good.  Companions: the reward output is exactly subsidy + fees, and the header
   fields are the prescribed ones.  std++ style throughout; [sha scrypt blake verify] are arbitrary functions. *)
From stdpp Require Import gmap.
From Coq Require Import NArith ZArith Lia.
From SkV Require Import Bytes Vlq Codec Merkle Ledger ChainState Pow Validate ChainDefs.
From SkV Require HeaderProofs.
From SkV Require Import BalanceProofs ValidProofs.
Open Scope N_scope.

(* ------------------------------------------------------------------------------------------------------------ *)
(* 0. small introduction lemmas                                                                                   *)
(* ------------------------------------------------------------------------------------------------------------ *)

Lemma bytes_eqb_refl (a : bytes) : bytes_eqb a a = true.
Proof. by apply HeaderProofs.bytes_eqb_eq. Qed.

Lemma evidence_eqb_refl (e : evidence) : evidence_eqb e e = true.
Proof. unfold evidence_eqb. by rewrite !bytes_eqb_refl. Qed.

Lemma bind_intro {A B} (r : res A) (f : A -> res B) (a : A) (y : B) :
  r = Ok a -> f a = Ok y -> bind r f = Ok y.
Proof. intros -> Hf. exact Hf. Qed.

Lemma check_intro (c : bool) (k : ekind) : c = true -> check c k = Ok tt.
Proof. by intros ->. Qed.

(* the two spellings of "the references a list of transactions consumes" *)
Lemma txs_in_keys_refs (ts : list tx) : txs_in_keys ts = concat (map tx_refs ts).
Proof.
  induction ts as [|t r IH]; cbn [txs_in_keys map concat]; [done|]. rewrite IH. done.
Qed.

Section Assembly.
  Variable sha : bytes -> bytes.
  Variable scrypt : bytes -> bytes.
  Variable blake : bytes -> bytes.
  Variable verify : bytes -> bytes -> bytes -> N.
  Variable P : cparams.

  (* the reward transaction construct_coinbase produces *)
  Definition reward_tx (height : N) (data pk : bytes) (fees : Z) : tx :=
    mkTx [mkInput (mkOutref (zeros 32) 0) (SigCoinbase height data)]
         [mkOutput (Z.to_N (Z.of_N (get_block_subsidy P height) + fees)) pk].

  (* ---------------------------------------------------------------------------------------------------------- *)
  (* 1. the shape of an assembled candidate                                                                      *)
  (* ---------------------------------------------------------------------------------------------------------- *)

  Lemma construct_coinbase_inv height others u data pk cb :
    construct_coinbase P height others u data pk = Some cb ->
    exists fees, block_fees u others = Some fees /\
                 (0 <= Z.of_N (get_block_subsidy P height) + fees)%Z /\
                 cb = reward_tx height data pk fees.
  Proof.
    unfold construct_coinbase. destruct (block_fees u others) as [fees|]; [|discriminate].
    cbv zeta. destruct (Z.ltb_spec (Z.of_N (get_block_subsidy P height) + fees) 0) as [Hlt|Hge]; [discriminate|].
    intros [= <-]. exists fees. done.
  Qed.

  Lemma construct_inv s others pk ts data nonce b :
    construct_block_for_mining sha scrypt blake P s others pk ts data nonce = Some b ->
    exists cur prev u fees mr tg ev,
      let h := b_height prev + 1 in
      let cb := reward_tx h data pk fees in
      let sm := mkSummary h cur mr ts tg nonce in
      cs_cur s = Some cur /\ cs_blocks s !! cur = Some prev /\ cs_utxo s !! cur = Some u /\
      block_fees u others = Some fees /\ (0 <= Z.of_N (get_block_subsidy P h) + fees)%Z /\
      merkle_root_of sha (cb :: others) = Some mr /\
      calc_target sha P s h ts prev = Some tg /\
      construct_evidence sha scrypt blake P s sm h (cb :: others) = Some ev /\
      b = mkBlock (mkHeader sm ev) (cb :: others).
  Proof.
    unfold construct_block_for_mining, cs_head.
    destruct (cs_cur s) as [cur|] eqn:Hcur; [|discriminate].
    destruct (cs_blocks s !! cur) as [prev|] eqn:Hprev; [|discriminate].
    cbv zeta.
    destruct (cs_utxo s !! cur) as [u|] eqn:Hu; [|discriminate].
    destruct (construct_coinbase _ _ _ _ _ _) as [cb|] eqn:Hcb; [|discriminate].
    apply construct_coinbase_inv in Hcb as (fees & Hfees & Hnn & ->).
    destruct (merkle_root_of _ _) as [mr|] eqn:Hmr; [|discriminate].
    destruct (calc_target _ _ _ _ _ _) as [tg|] eqn:Htg; [|discriminate].
    destruct (construct_evidence _ _ _ _ _ _ _ _) as [ev|] eqn:Hev; [|discriminate].
    intros [= <-]. exists cur, prev, u, fees, mr, tg, ev. cbv zeta. done.
  Qed.

  (* the evidence of a non-genesis block can only be built when the by-height index of the parent exists *)
  Lemma construct_evidence_byheight s sm h txs ev :
    construct_evidence sha scrypt blake P s sm h txs = Some ev -> h <> 0 ->
    is_Some (cs_byheight s !! s_prev sm).
  Proof.
    unfold construct_evidence. intros H Hne.
    destruct (2 ^ 64 <=? h); [discriminate|]. cbv zeta in H.
    destruct (N.eqb_spec h 0) as [->|_]; [done|].
    destruct (cs_byheight s !! s_prev sm); [eauto|discriminate].
  Qed.

  (* ---------------------------------------------------------------------------------------------------------- *)
  (* 2. companions                                                                                               *)
  (* ---------------------------------------------------------------------------------------------------------- *)

  Theorem assembly_header s others pk ts data nonce b cur prev :
    construct_block_for_mining sha scrypt blake P s others pk ts data nonce = Some b ->
    cs_cur s = Some cur -> cs_head s = Some prev ->
    b_height b = b_height prev + 1 /\ b_time b = ts /\ b_prev b = cur /\
    s_nonce (h_summary (b_header b)) = nonce.
  Proof.
    intros (cur' & prev' & u & fees & mr & tg & ev & Hc & Hp & _ & _ & _ & _ & _ & _ & ->)%construct_inv Hcur Hhead.
    unfold cs_head in Hhead. rewrite Hcur in Hhead. rewrite Hcur in Hc. injection Hc as <-.
    rewrite Hhead in Hp. injection Hp as <-. done.
  Qed.

  Theorem assembly_reward_exact s others pk ts data nonce b cur u :
    construct_block_for_mining sha scrypt blake P s others pk ts data nonce = Some b ->
    cs_cur s = Some cur -> cs_utxo s !! cur = Some u ->
    exists cb fees,
      b_txs b = cb :: others /\ block_fees u others = Some fees /\
      tx_outputs cb = [mkOutput (Z.to_N (Z.of_N (get_block_subsidy P (b_height b)) + fees)) pk] /\
      (0 <= Z.of_N (get_block_subsidy P (b_height b)) + fees)%Z.
  Proof.
    intros (cur' & prev & u' & fees & mr & tg & ev & Hc & _ & Hu' & Hfees & Hnn & _ & _ & _ & ->)%construct_inv Hcur Hu.
    rewrite Hcur in Hc. injection Hc as <-. rewrite Hu in Hu'. injection Hu' as <-.
    eexists _, fees. done.
  Qed.

  (* ---------------------------------------------------------------------------------------------------------- *)
  (* 3. the pieces of add_nv                                                                                     *)
  (* ---------------------------------------------------------------------------------------------------------- *)

  (* pool transactions that validate against [u] only consume outputs present in [u] *)
  Lemma pool_inputs_present u others :
    Forall (fun t => v_noncb_in_state verify u t = Ok tt) others ->
    Forall (fun k => is_Some (u !! k)) (txs_in_keys others).
  Proof.
    induction 1 as [|t r Ht _ IH]; cbn [txs_in_keys]; [constructor|].
    apply Forall_app. split; [|done].
    apply v_noncb_in_state_ok in Ht as [Hall _]. unfold tx_in_keys. apply Forall_fmap.
    eapply Forall_impl; [exact Hall|]. cbn beta. intros i (o & sg & Ho & _). unfold compose, in_key. eauto.
  Qed.

  Lemma add_nv_succeeds s b cur u m :
    cs_cur s = Some cur -> b_prev b = cur -> is_zero32 cur = false ->
    cs_utxo s !! cur = Some u -> cs_byheight s !! cur = Some m ->
    is_Some (uto_apply_block sha u b) ->
    is_Some (add_nv sha s b).
  Proof.
    intros Hcur Hprev Hz Hu Hm [u1 Hu1]. unfold add_nv.
    rewrite Hprev, Hz, Hu, Hu1, Hm, Hcur, bytes_eqb_refl. eauto.
  Qed.

  (* ---------------------------------------------------------------------------------------------------------- *)
  (* 4. the main theorem                                                                                         *)
  (* ---------------------------------------------------------------------------------------------------------- *)

  Theorem assembly_valid s others pk ts data nonce b now cur prev u :
    construct_block_for_mining sha scrypt blake P s others pk ts data nonce = Some b ->
    (* the state the candidate is built on.  The first three only NAME the head id, the head block and its unspent
       set (construct_block_for_mining having succeeded already implies that all three lookups succeed). *)
    cs_cur s = Some cur -> cs_blocks s !! cur = Some prev -> cs_utxo s !! cur = Some u ->
    (* the head's id is not the all-zero string: add_nv treats a block whose prev is 32 zero bytes as a genesis
       block and applies it to the EMPTY unspent set.  Holds in every reachable state unless sha produces 32 zero
       bytes on a stored header (a hash preimage of zero). *)
    is_zero32 cur = false ->
    (* the pending pool is admissible (C13's invariant), relative to the head's unspent set *)
    Forall (fun t => v_noncb_by_itself P t = Ok tt) others ->
    Forall (fun t => v_noncb_in_state verify u t = Ok tt) others ->
    nodup_keys [] (concat (map tx_refs others)) = true ->
    nodup_bytes [] (map (tx_id sha) others) = true ->
    (* sizes: the miner fills the block up to the limit and chooses short reward data *)
    N.of_nat (length (enc_block b)) <= p_max_block P -> N.of_nat (length data) <= p_max_cbdata P ->
    (* clock: the candidate's time stamp is later than the head's and not too far ahead of the validating clock *)
    b_time prev < ts -> ts <= now + p_max_future P ->
    (* the nonce was good, and we are above the checkpoint horizon *)
    bytes_ltb (block_id sha b) (b_target b) = true -> FV P b ->
    exists s', add_block sha scrypt blake verify P s b now = Ok s'.
  Proof.
    intros Hcons Hcur Hprev Hu Hz Hself Hstate Hndk Hndb Hsize Hdata Htime Hfut Hpow Hfv.
    apply construct_inv in Hcons
      as (cur' & prev' & u' & fees & mr & tg & ev & Hc & Hp & Hu' & Hfees & Hnn & Hmr & Htg & Hev & Hb).
    cbv zeta in *.
    rewrite Hcur in Hc. injection Hc as <-. rewrite Hprev in Hp. injection Hp as <-.
    rewrite Hu in Hu'. injection Hu' as <-.
    set (h := b_height prev + 1) in *.
    set (cb := reward_tx h data pk fees) in *.
    set (sm := mkSummary h cur mr ts tg nonce) in *.
    assert (b_txs b = cb :: others) as Htxs by (by rewrite Hb).
    assert (h_summary (b_header b) = sm) as Hsm by (by rewrite Hb).
    assert (h_evidence (b_header b) = ev) as Hevb by (by rewrite Hb).
    assert (b_height b = h) as Hh by (unfold b_height; by rewrite Hsm).
    assert (b_prev b = cur) as Hbp by (unfold b_prev; by rewrite Hsm).
    clear Hb.
    (* the last stage first: add_nv *)
    assert (is_Some (add_nv sha s b)) as [s' Hnv].
    { assert (h <> 0) as Hne by (unfold h; lia).
      destruct (construct_evidence_byheight _ _ _ _ _ Hev Hne) as [m Hm]. cbn [s_prev sm] in Hm.
      eapply add_nv_succeeds; [exact Hcur|exact Hbp|exact Hz|exact Hu|exact Hm|].
      apply uto_apply_block_succeeds.
      - by rewrite Htxs.
      - rewrite Htxs. cbn [tail]. by apply pool_inputs_present.
      - rewrite Htxs. cbn [tail]. rewrite txs_in_keys_refs. by apply nodup_keys_nil. }
    exists s'. unfold add_block.
    eapply bind_intro with (a := tt).
    { (* by itself *)
      unfold v_block_by_itself.
      eapply bind_intro with (a := tt).
      { unfold v_header_by_itself.
        eapply bind_intro with (a := tt).
        - apply check_intro. exact Hpow.
        - apply check_intro. rewrite Hsm. cbn [s_time sm]. by apply N.leb_le. }
      rewrite Htxs.
      eapply bind_intro with (a := tt); [apply check_intro; by apply N.leb_le|].
      eapply bind_intro with (a := tt).
      { unfold v_cb_by_itself. cbn [tx_inputs cb reward_tx in_ref in_sig].
        eapply bind_intro with (a := tt).
        - apply check_intro. unfold thin_air. cbn [or_hash or_index]. by rewrite bytes_eqb_refl.
        - apply check_intro. by apply N.leb_le. }
      eapply bind_intro with (a := tt).
      { apply check_intro. unfold cb_height. cbn [tx_inputs cb reward_tx in_sig]. rewrite Hh. apply N.eqb_refl. }
      eapply bind_intro with (a := tt); [by apply forM_ok|].
      eapply bind_intro with (a := tt); [by apply check_intro|].
      eapply bind_intro with (a := tt); [by apply check_intro|].
      rewrite Hmr. apply check_intro. rewrite Hsm. cbn [s_merkle sm]. apply bytes_eqb_refl. }
    eapply bind_intro with (a := tt).
    { (* in state *)
      unfold v_block_in_state.
      assert ((Z.of_N (b_height b) <=? p_hz P)%Z = false) as -> by (apply Z.leb_gt; exact Hfv).
      eapply bind_intro with (a := tt).
      { unfold v_summary_in_state. rewrite Hsm. cbn [s_prev s_time s_target sm]. rewrite Hprev.
        eapply bind_intro with (a := tt); [apply check_intro; by apply N.ltb_lt|].
        fold h. rewrite Htg. cbn [of_opt bind]. apply check_intro. apply bytes_eqb_refl. }
      rewrite Hsm, Hh, Htxs, Hev. cbn [of_opt bind].
      eapply bind_intro with (a := tt); [apply check_intro; rewrite Hevb; apply evidence_eqb_refl|].
      eapply bind_intro with (a := tt).
      { unfold v_cb_in_state. rewrite Hbp, Hprev, Hu, Htxs, Hh. cbn [of_opt bind tl]. rewrite Hfees.
        cbn [of_opt bind].
        eapply bind_intro with (a := tt); [apply check_intro; apply N.eqb_refl|].
        apply check_intro. apply Z.leb_le.
        cbn [tx_outputs cb reward_tx sum_outputs fold_right out_value]. lia. }
      rewrite Hbp, Hu. cbn [of_opt bind]. by apply forM_ok. }
    by apply of_opt_ok.
  Qed.
End Assembly.

