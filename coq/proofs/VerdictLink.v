(* Link between the node model's verdict inputs and the consensus model: the three verdicts that NodeModel.handle_block
   consumes are all positive exactly when CoinState.add_block (full validation) succeeds. *)
From stdpp Require Import gmap.
From Coq Require Import NArith.
From SkV Require Import Bytes Codec Ledger ChainState Pow Validate NodeModel.

Section Link.
  Variable sha scrypt blake : bytes -> bytes.
  Variable verify : bytes -> bytes -> bytes -> N.
  Variable P : cparams.

  Definition res_ok {A} (r : res A) : bool := match r with Ok _ => true | Err _ => false end.
  Definition verdicts (s : cstate) (b : block) (now : N) : bverdict :=
    mkBV (res_ok (v_block_by_itself sha P b now))
         (match add_nv sha s b with Some _ => true | None => false end)
         (res_ok (v_block_in_state sha scrypt blake verify P b s)).

  Lemma verdicts_full_validation s b now :
    (bv_itself (verdicts s b now) = true /\ bv_apply (verdicts s b now) = true /\ bv_instate (verdicts s b now) = true)
    <-> exists s', add_block sha scrypt blake verify P s b now = Ok s'.
  Proof.
    unfold verdicts, add_block, bind, of_opt, res_ok; cbn [bv_itself bv_apply bv_instate].
    destruct (v_block_by_itself sha P b now) as [[]|k1]; destruct (v_block_in_state sha scrypt blake verify P b s) as [[]|k2];
      destruct (add_nv sha s b) as [s1|]; split; intros H;
      try (destruct H as (H1 & H2 & H3); discriminate);
      try (destruct H as [s' H]; discriminate);
      try (eexists; reflexivity); try (repeat split; reflexivity).
  Qed.
End Link.
