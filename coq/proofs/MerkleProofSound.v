(* Soundness of merkle inclusion proofs (merkletree.py get_merkle_tree / get_proof):
   the explicit tree agrees with the level-by-level root, every proof reproduces the commitment,
   and the proof for position i contains entry i of the list at index i. *)
From Coq Require Import List Arith Lia.
From SkV Require Import Merkle MerkleProofs.
Import ListNotations.

(* ------------------------------------------------------------------ *)
(* structural invariant: [span t lo hi] = the leaves of t, left to right, carry exactly the
   indices lo, lo+1, ..., hi-1, and every inner node carries the index of its leftmost leaf *)
Inductive span {D : Type} : mtree D -> nat -> nat -> Prop :=
| span_leaf i v : span (MLeaf i v) i (S i)
| span_node a b lo mid hi : span a lo mid -> span b mid hi -> span (MNode lo a b) lo hi.

(* a list of consecutive spans covering [lo, hi) *)
Inductive chain {D : Type} : list (mtree D) -> nat -> nat -> Prop :=
| chain_nil lo : chain [] lo lo
| chain_cons t ts lo mid hi : span t lo mid -> chain ts mid hi -> chain (t :: ts) lo hi.

Definition all_leaves {D} (ts : list (mtree D)) : list (nat * D) := concat (map mt_leaves ts).

Section Sound.
  Variable D : Type.
  Variable H2 : D -> D -> D.

  (* ---------------- basic facts about span ---------------- *)
  Lemma span_index (t : mtree D) lo hi : span t lo hi -> mt_index t = lo.
  Proof. intros Hs. destruct Hs; reflexivity. Qed.

  Lemma span_lt (t : mtree D) lo hi : span t lo hi -> lo < hi.
  Proof. intros Hs. induction Hs; lia. Qed.

  Lemma span_leaves_range (t : mtree D) lo hi :
    span t lo hi -> forall j v, In (j, v) (mt_leaves t) -> lo <= j < hi.
  Proof.
    intros Hs. induction Hs as [i w | a b lo mid hi Ha IHa Hb IHb]; intros j v Hin; cbn [mt_leaves] in Hin.
    - destruct Hin as [E | []]. inversion E; subst. lia.
    - apply span_lt in Ha as La. apply span_lt in Hb as Lb.
      apply in_app_or in Hin as [Hin | Hin].
      + apply IHa in Hin. lia.
      + apply IHb in Hin. lia.
  Qed.

  (* ---------------- level_t: length, hashes, leaves, chain ---------------- *)
  Lemma level_t_len : forall n (ts : list (mtree D)), length ts <= n ->
    length (level_t ts) <= length ts /\ (2 <= length ts -> length (level_t ts) < length ts).
  Proof.
    induction n as [|n IH]; intros ts Hl.
    - destruct ts; simpl in *; [split; lia | lia].
    - destruct ts as [|a [|b r]]; simpl in *; try (split; lia).
      destruct (IH r ltac:(lia)) as [L1 L2]. split; lia.
  Qed.

  Lemma level_t_hash : forall n (ts : list (mtree D)), length ts <= n ->
    map (mt_hash H2) (level_t ts) = level H2 (map (mt_hash H2) ts).
  Proof.
    induction n as [|n IH]; intros ts Hl.
    - destruct ts; [reflexivity | simpl in Hl; lia].
    - destruct ts as [|a [|b r]]; try reflexivity.
      cbn [level_t map level mt_hash]. f_equal. apply IH. simpl in Hl. lia.
  Qed.

  Lemma level_t_leaves : forall n (ts : list (mtree D)), length ts <= n ->
    all_leaves (level_t ts) = all_leaves ts.
  Proof.
    induction n as [|n IH]; intros ts Hl.
    - destruct ts; [reflexivity | simpl in Hl; lia].
    - destruct ts as [|a [|b r]]; try reflexivity.
      unfold all_leaves in *. cbn [level_t map concat mt_leaves].
      rewrite IH by (simpl in Hl; lia). rewrite <- app_assoc. reflexivity.
  Qed.

  Lemma level_t_chain : forall n (ts : list (mtree D)) lo hi, length ts <= n ->
    chain ts lo hi -> chain (level_t ts) lo hi.
  Proof.
    induction n as [|n IH]; intros ts lo hi Hl Hc.
    - destruct ts; [exact Hc | simpl in Hl; lia].
    - destruct ts as [|a [|b r]]; try exact Hc.
      cbn [level_t].
      inversion Hc as [|? ? ? m1 ? Ha Hc1]; subst.
      inversion Hc1 as [|? ? ? m2 ? Hb Hc2]; subst.
      rewrite (span_index _ _ _ Ha).
      eapply chain_cons.
      + eapply span_node; eassumption.
      + apply IH; [simpl in Hl; lia | exact Hc2].
  Qed.

  (* ---------------- tree_fuel ---------------- *)
  Lemma tree_fuel_enough : forall f (ts : list (mtree D)), ts <> [] -> length ts <= f ->
    exists t, tree_fuel f ts = Some t.
  Proof.
    induction f as [|f IH]; intros ts Hne Hl; [destruct ts; [congruence | simpl in Hl; lia]|].
    cbn [tree_fuel]. destruct ts as [|a [|b r]]; [congruence | eexists; reflexivity |].
    apply IH.
    - cbn [level_t]. discriminate.
    - destruct (level_t_len (length (a :: b :: r)) (a :: b :: r) (le_n _)) as [_ Hlt].
      specialize (Hlt ltac:(simpl; lia)). simpl in *. lia.
  Qed.

  Lemma tree_fuel_hash : forall f (ts : list (mtree D)) t, tree_fuel f ts = Some t ->
    root_fuel H2 f (map (mt_hash H2) ts) = Some (mt_hash H2 t).
  Proof.
    induction f as [|f IH]; intros ts t Ht; [discriminate|].
    cbn [tree_fuel] in Ht. destruct ts as [|a [|b r]]; [discriminate | |].
    - inversion Ht; subst. reflexivity.
    - apply IH in Ht. rewrite (level_t_hash (length (a :: b :: r))) in Ht by lia.
      exact Ht.
  Qed.

  Lemma tree_fuel_leaves : forall f (ts : list (mtree D)) t, tree_fuel f ts = Some t ->
    mt_leaves t = all_leaves ts.
  Proof.
    induction f as [|f IH]; intros ts t Ht; [discriminate|].
    cbn [tree_fuel] in Ht. destruct ts as [|a [|b r]]; [discriminate | |].
    - inversion Ht; subst. unfold all_leaves. cbn. rewrite app_nil_r. reflexivity.
    - apply IH in Ht. rewrite Ht. apply (level_t_leaves (length (a :: b :: r))). lia.
  Qed.

  Lemma tree_fuel_span : forall f (ts : list (mtree D)) t lo hi, tree_fuel f ts = Some t ->
    chain ts lo hi -> span t lo hi.
  Proof.
    induction f as [|f IH]; intros ts t lo hi Ht Hc; [discriminate|].
    cbn [tree_fuel] in Ht. destruct ts as [|a [|b r]]; [discriminate | |].
    - inversion Ht; subst.
      inversion Hc as [|? ? ? m ? Ha Hc1]; subst. inversion Hc1; subst. exact Ha.
    - eapply IH; [exact Ht|]. apply (level_t_chain (length (a :: b :: r))); [lia | exact Hc].
  Qed.

  (* ---------------- leaves_from ---------------- *)
  Lemma leaves_from_length : forall (l : list D) i, length (leaves_from i l) = length l.
  Proof. induction l as [|x l IH]; intros i; cbn; [reflexivity | rewrite IH; reflexivity]. Qed.

  Lemma leaves_from_hash : forall (l : list D) i, map (mt_hash H2) (leaves_from i l) = l.
  Proof. induction l as [|x l IH]; intros i; cbn; [reflexivity | rewrite IH; reflexivity]. Qed.

  Lemma leaves_from_leaves : forall (l : list D) i,
    all_leaves (leaves_from i l) = combine (seq i (length l)) l.
  Proof.
    unfold all_leaves. induction l as [|x l IH]; intros i; cbn; [reflexivity | rewrite IH; reflexivity].
  Qed.

  Lemma leaves_from_chain : forall (l : list D) i, chain (leaves_from i l) i (i + length l).
  Proof.
    induction l as [|x l IH]; intros i; cbn [leaves_from length].
    - rewrite Nat.add_0_r. constructor.
    - eapply chain_cons; [apply span_leaf|].
      replace (i + S (length l)) with (S i + length l) by lia. apply IH.
  Qed.

  Lemma combine_seq_nth : forall (l : list D) lo i d, i < length l ->
    In (lo + i, nth i l d) (combine (seq lo (length l)) l).
  Proof.
    induction l as [|x l IH]; intros lo i d Hi; [simpl in Hi; lia|].
    cbn [length seq combine]. destruct i as [|i].
    - left. rewrite Nat.add_0_r. reflexivity.
    - right. cbn [nth]. replace (lo + S i) with (S lo + i) by lia. apply IH. simpl in Hi. lia.
  Qed.

  (* ---------------- the tree produced by [tree] ---------------- *)
  Lemma tree_span (l : list D) t : tree l = Some t -> span t 0 (length l).
  Proof.
    intros Ht. unfold tree in Ht. eapply tree_fuel_span; [exact Ht|].
    apply (leaves_from_chain l 0).
  Qed.

  (* the in-order leaves of the full tree are exactly the indexed entries of the list *)
  Lemma tree_leaves (l : list D) t : tree l = Some t -> mt_leaves t = combine (seq 0 (length l)) l.
  Proof.
    intros Ht. unfold tree in Ht. apply tree_fuel_leaves in Ht. rewrite Ht. apply leaves_from_leaves.
  Qed.

  (* ---------------- get_proof descends to the right leaf ---------------- *)
  Lemma get_proof_keeps (t : mtree D) lo hi : span t lo hi ->
    forall i v, In (i, v) (mt_leaves t) -> In (i, v) (mt_leaves (get_proof H2 t i)).
  Proof.
    intros Hs. induction Hs as [j w | a b lo mid hi Ha IHa Hb IHb]; intros i v Hin.
    - exact Hin.
    - cbn [get_proof]. rewrite (span_index _ _ _ Hb).
      cbn [mt_leaves] in Hin. apply in_app_or in Hin.
      destruct (mid <=? i) eqn:E.
      + apply Nat.leb_le in E. cbn [mt_leaves]. apply in_or_app. right.
        destruct Hin as [Hin | Hin].
        * apply (span_leaves_range _ _ _ Ha) in Hin. lia.
        * apply IHb. exact Hin.
      + apply Nat.leb_gt in E. cbn [mt_leaves]. apply in_or_app. left.
        destruct Hin as [Hin | Hin].
        * apply IHa. exact Hin.
        * apply (span_leaves_range _ _ _ Hb) in Hin. lia.
  Qed.

  (* ================= main results ================= *)

  (* 1 *)
  Theorem tree_exists (l : list D) : l <> [] -> exists t, tree l = Some t.
  Proof.
    intros Hne. unfold tree. apply tree_fuel_enough.
    - destruct l; [congruence | cbn; discriminate].
    - rewrite leaves_from_length. lia.
  Qed.

  (* 2: the explicit tree and the level-by-level root computation agree *)
  Theorem tree_hash_is_root (l : list D) t : tree l = Some t -> root H2 l = Some (mt_hash H2 t).
  Proof.
    intros Ht. unfold tree in Ht. apply tree_fuel_hash in Ht.
    rewrite leaves_from_hash in Ht. exact Ht.
  Qed.

  (* 3: every proof reproduces the commitment *)
  Theorem proof_hash : forall (t : mtree D) i, mt_hash H2 (get_proof H2 t i) = mt_hash H2 t.
  Proof.
    induction t as [j v | idx a IHa b IHb]; intros i; [reflexivity|].
    cbn [get_proof]. destruct (mt_index b <=? i); cbn [mt_hash]; [rewrite IHb | rewrite IHa]; reflexivity.
  Qed.

  (* 4: the proof for position i contains entry i at index i *)
  Theorem proof_contains (l : list D) t i d : tree l = Some t -> i < length l ->
    In (i, nth i l d) (mt_leaves (get_proof H2 t i)).
  Proof.
    intros Ht Hi. eapply get_proof_keeps; [apply tree_span; exact Ht|].
    rewrite (tree_leaves l t Ht). apply (combine_seq_nth l 0 i d Hi).
  Qed.

  (* 5 *)
  Theorem proof_sound : forall (l : list D) (t : mtree D) (i : nat) (d : D),
    tree l = Some t -> i < length l ->
    root H2 l = Some (mt_hash H2 (get_proof H2 t i)) /\
    In (i, nth i l d) (mt_leaves (get_proof H2 t i)).
  Proof.
    intros l t i d Ht Hi. split.
    - rewrite proof_hash. apply tree_hash_is_root. exact Ht.
    - apply proof_contains; assumption.
  Qed.
End Sound.

(* ---------------- non-vacuity: a concrete 5-element list, i = 4 (the promoted odd element) ---- *)
Definition exH (a b : nat) : nat := a * 10 + b.
Definition exL : list nat := [1; 2; 3; 4; 5].

Example ex_tree_some : exists t, tree exL = Some t.
Proof. eexists. vm_compute. reflexivity. Qed.

Example ex_proof_sound_4 :
  match tree exL with
  | Some t =>
      root exH exL = Some (mt_hash exH (get_proof exH t 4)) /\
      mt_leaves (get_proof exH t 4) = [(0, 154); (4, 5)] /\
      In (4, nth 4 exL 0) (mt_leaves (get_proof exH t 4))
  | None => False
  end.
Proof. vm_compute. split; [reflexivity | split; [reflexivity | right; left; reflexivity]]. Qed.

Example ex_proof_sound_4_via_thm : forall t, tree exL = Some t ->
  root exH exL = Some (mt_hash exH (get_proof exH t 4)) /\
  In (4, 5) (mt_leaves (get_proof exH t 4)).
Proof. intros t Ht. apply (proof_sound nat exH exL t 4 0 Ht). vm_compute. lia. Qed.

