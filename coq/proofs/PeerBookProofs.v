(* C19: peer book.  Proofs about model/PeerBook.v (stdlib style, no axioms). *)
From Coq Require Import NArith List Bool Arith Lia.
From SkV Require Import PeerBook.
Import ListNotations.
Open Scope N_scope.

(* ------------------------------------------------------------------ *)
(* 0. keys: key_eqb is Leibniz equality                                *)
(* ------------------------------------------------------------------ *)
Lemma dir_eqb_eq a b : dir_eqb a b = true <-> a = b.
Proof. destruct a, b; cbn; split; intros H; try reflexivity; discriminate. Qed.

Lemma key_eqb_eq a b : key_eqb a b = true <-> a = b.
Proof.
  destruct a as [h p d], b as [h' p' d']; unfold key_eqb; cbn [k_host k_port k_dir].
  rewrite !andb_true_iff, !N.eqb_eq, dir_eqb_eq. split.
  - intros [[-> ->] ->]; reflexivity.
  - intros H; inversion H; auto.
Qed.

Lemma key_eqb_refl k : key_eqb k k = true.
Proof. apply key_eqb_eq; reflexivity. Qed.

Lemma key_eqb_neq a b : key_eqb a b = false <-> a <> b.
Proof.
  split.
  - intros H E. apply key_eqb_eq in E. congruence.
  - intros H. destruct (key_eqb a b) eqn:E; [apply key_eqb_eq in E; contradiction | reflexivity].
Qed.

Lemma negb_key_eqb a b : negb (key_eqb a b) = true <-> a <> b.
Proof. rewrite negb_true_iff. apply key_eqb_neq. Qed.

Lemma key_eq_dec (a b : pkey) : {a = b} + {a <> b}.
Proof.
  destruct (key_eqb a b) eqn:E; [left; apply key_eqb_eq; exact E | right; apply key_eqb_neq; exact E].
Qed.

(* ------------------------------------------------------------------ *)
(* 1. list helpers                                                     *)
(* ------------------------------------------------------------------ *)
Lemma NoDup_snoc {A} (l : list A) x : NoDup (l ++ [x]) <-> NoDup l /\ ~ In x l.
Proof.
  split.
  - intros H. split.
    + apply NoDup_remove_1 in H. rewrite app_nil_r in H. exact H.
    + apply NoDup_remove_2 in H. rewrite app_nil_r in H. exact H.
  - intros [H1 H2]. induction l as [|a l IH]; cbn.
    + constructor; [intros [] | constructor].
    + inversion H1; subst. constructor.
      * rewrite in_app_iff. intros [H|[H|[]]]; [contradiction | subst; apply H2; left; reflexivity].
      * apply IH; [assumption | intros H; apply H2; right; exact H].
Qed.

Lemma NoDup_map_filter {A B} (f : A -> B) p l : NoDup (map f l) -> NoDup (map f (filter p l)).
Proof.
  induction l as [|a l IH]; cbn; intros H; [constructor|].
  inversion H; subst. destruct (p a); cbn; [constructor|]; auto.
  intros Hin. apply H2. apply in_map_iff in Hin. destruct Hin as (x & Hx & Hin).
  apply filter_In in Hin. apply in_map_iff. exists x. tauto.
Qed.

Lemma NoDup_map_inj_in {A B} (f : A -> B) l x y :
  NoDup (map f l) -> In x l -> In y l -> f x = f y -> x = y.
Proof.
  induction l as [|a l IH]; cbn; intros H Hx Hy E; [contradiction|].
  inversion H; subst.
  destruct Hx as [->|Hx], Hy as [->|Hy]; auto.
  - exfalso. apply H2. rewrite E. apply in_map; assumption.
  - exfalso. apply H2. rewrite <- E. apply in_map; assumption.
Qed.

Lemma NoDup_firstn {A} n (l : list A) : NoDup l -> NoDup (firstn n l).
Proof.
  revert l; induction n as [|n IH]; intros [|a l] H; cbn; try constructor.
  - inversion H; subst. intros Hin. apply H2.
    rewrite <- (firstn_skipn n l). apply in_or_app; left; exact Hin.
  - inversion H; subst. apply IH; assumption.
Qed.

(* find / del / set on the two tables *)
Lemma find_conn_none l k : find_conn l k = None <-> forall c, In c l -> c_key c <> k.
Proof.
  unfold find_conn. split.
  - intros H c Hc. apply key_eqb_neq. exact (find_none _ _ H c Hc).
  - intros H. destruct (find _ l) eqn:E; [|reflexivity].
    apply find_some in E. destruct E as [Hin E]. apply key_eqb_eq in E. exfalso; exact (H _ Hin E).
Qed.

Lemma find_conn_some l k c : find_conn l k = Some c -> In c l /\ c_key c = k.
Proof. unfold find_conn. intros H. apply find_some in H. rewrite key_eqb_eq in H. exact H. Qed.

Lemma find_disc_none l k : find_disc l k = None <-> forall d, In d l -> d_key d <> k.
Proof.
  unfold find_disc. split.
  - intros H c Hc. apply key_eqb_neq. exact (find_none _ _ H c Hc).
  - intros H. destruct (find _ l) eqn:E; [|reflexivity].
    apply find_some in E. destruct E as [Hin E]. apply key_eqb_eq in E. exfalso; exact (H _ Hin E).
Qed.

Lemma find_disc_some l k d : find_disc l k = Some d -> In d l /\ d_key d = k.
Proof. unfold find_disc. intros H. apply find_some in H. rewrite key_eqb_eq in H. exact H. Qed.

Lemma find_disc_nodup l d : NoDup (map d_key l) -> In d l -> find_disc l (d_key d) = Some d.
Proof.
  intros ND Hin. destruct (find_disc l (d_key d)) as [d'|] eqn:E.
  - apply find_disc_some in E. destruct E as [Hin' E]. f_equal.
    exact (NoDup_map_inj_in d_key l d' d ND Hin' Hin E).
  - exfalso. exact (proj1 (find_disc_none _ _) E d Hin eq_refl).
Qed.

Lemma find_conn_nodup l c : NoDup (map c_key l) -> In c l -> find_conn l (c_key c) = Some c.
Proof.
  intros ND Hin. destruct (find_conn l (c_key c)) as [d'|] eqn:E.
  - apply find_conn_some in E. destruct E as [Hin' E]. f_equal.
    exact (NoDup_map_inj_in c_key l d' c ND Hin' Hin E).
  - exfalso. exact (proj1 (find_conn_none _ _) E c Hin eq_refl).
Qed.

Lemma in_del_conn l k x : In x (del_conn l k) <-> In x l /\ c_key x <> k.
Proof. unfold del_conn. rewrite filter_In, negb_key_eqb. tauto. Qed.

Lemma in_del_disc l k x : In x (del_disc l k) <-> In x l /\ d_key x <> k.
Proof. unfold del_disc. rewrite filter_In, negb_key_eqb. tauto. Qed.

Lemma in_set_conn l c x : In x (set_conn l c) <-> (In x l /\ c_key x <> c_key c) \/ x = c.
Proof. unfold set_conn. rewrite in_app_iff, in_del_conn. cbn. intuition. Qed.

Lemma in_set_disc l d x : In x (set_disc l d) <-> (In x l /\ d_key x <> d_key d) \/ x = d.
Proof. unfold set_disc. rewrite in_app_iff, in_del_disc. cbn. intuition. Qed.

Lemma del_conn_id l k : (forall c, In c l -> c_key c <> k) -> del_conn l k = l.
Proof.
  unfold del_conn. induction l as [|a l IH]; cbn; intros H; [reflexivity|].
  assert (Ha : negb (key_eqb (c_key a) k) = true) by (apply negb_key_eqb, H; left; reflexivity).
  rewrite Ha. f_equal. apply IH. intros c Hc; apply H; right; exact Hc.
Qed.

Lemma nodup_del_conn l k : NoDup (map c_key l) -> NoDup (map c_key (del_conn l k)).
Proof. apply NoDup_map_filter. Qed.

Lemma nodup_del_disc l k : NoDup (map d_key l) -> NoDup (map d_key (del_disc l k)).
Proof. apply NoDup_map_filter. Qed.

Lemma nodup_set_conn l c : NoDup (map c_key l) -> NoDup (map c_key (set_conn l c)).
Proof.
  intros H. unfold set_conn. rewrite map_app. cbn. apply NoDup_snoc. split.
  - apply nodup_del_conn; exact H.
  - intros Hin. apply in_map_iff in Hin. destruct Hin as (x & E & Hin).
    apply in_del_conn in Hin. tauto.
Qed.

Lemma nodup_set_disc l d : NoDup (map d_key l) -> NoDup (map d_key (set_disc l d)).
Proof.
  intros H. unfold set_disc. rewrite map_app. cbn. apply NoDup_snoc. split.
  - apply nodup_del_disc; exact H.
  - intros Hin. apply in_map_iff in Hin. destruct Hin as (x & E & Hin).
    apply in_del_disc in Hin. tauto.
Qed.

(* the "pairwise key_eqb false" reading of NoDup-by-key *)
Lemma NoDup_by_key_spec {A} (key : A -> pkey) (l : list A) :
  NoDup (map key l) <-> ForallOrdPairs (fun a b => key_eqb (key a) (key b) = false) l.
Proof.
  induction l as [|a l IH]; cbn.
  - split; constructor.
  - split; intros H.
    + inversion H; subst. constructor; [|apply IH; assumption].
      apply Forall_forall. intros x Hx. apply key_eqb_neq. intros E. apply H2. rewrite E. apply in_map; exact Hx.
    + inversion H; subst. constructor; [|apply IH; assumption].
      intros Hin. apply in_map_iff in Hin. destruct Hin as (x & E & Hx).
      rewrite Forall_forall in H2. specialize (H2 x Hx). apply key_eqb_neq in H2. congruence.
Qed.

(* ------------------------------------------------------------------ *)
(* 2. sanity predicate and the invariant                               *)
(* ------------------------------------------------------------------ *)
Definition Sane (b : book) : Prop :=
  forall c d, In c (b_conn b) -> In d (b_disc b) -> c_key c <> d_key d.

Lemma sane_iff b : sane b = true <-> Sane b.
Proof.
  unfold sane, Sane. rewrite forallb_forall. split.
  - intros H c d Hc Hd E. specialize (H c Hc).
    destruct (find_disc (b_disc b) (c_key c)) eqn:F; [discriminate|].
    exact (proj1 (find_disc_none _ _) F d Hd (eq_sym E)).
  - intros H c Hc. destruct (find_disc (b_disc b) (c_key c)) eqn:F; [|reflexivity].
    apply find_disc_some in F. destruct F as [Hd E]. exfalso. exact (H c d Hc Hd (eq_sym E)).
Qed.

Definition Inv (b : book) : Prop :=
  NoDup (map c_key (b_conn b)) /\ NoDup (map d_key (b_disc b)) /\ sane b = true.

Lemma Inv_empty : Inv book_empty.
Proof. repeat split; constructor. Qed.

(* ---- peer_disconnected ---- *)
Lemma pd_conn_in b c x : In x (b_conn (peer_disconnected b c)) -> In x (b_conn b).
Proof.
  unfold peer_disconnected. destruct (find_conn (b_conn b) (c_key c)); [|tauto].
  destruct (k_dir (c_key c)); cbn; rewrite in_del_conn; tauto.
Qed.

Lemma pd_conn_in_ne b c x : find_conn (b_conn b) (c_key c) <> None ->
  In x (b_conn (peer_disconnected b c)) -> c_key x <> c_key c.
Proof.
  unfold peer_disconnected. destruct (find_conn (b_conn b) (c_key c)); [|congruence]. intros _.
  destruct (k_dir (c_key c)); cbn; rewrite in_del_conn; tauto.
Qed.

Lemma pd_disc_in b c d : In d (b_disc (peer_disconnected b c)) ->
  In d (b_disc b) \/ (d_key d = c_key c /\ find_conn (b_conn b) (c_key c) <> None).
Proof.
  unfold peer_disconnected. destruct (find_conn (b_conn b) (c_key c)) eqn:F; [|tauto].
  destruct (k_dir (c_key c)); cbn; [tauto|]. rewrite in_set_disc.
  intros [[H _]| ->]; [tauto|]. right; cbn; split; [reflexivity|congruence].
Qed.

Lemma pd_mine b c : b_mine (peer_disconnected b c) = b_mine b.
Proof.
  unfold peer_disconnected. destruct (find_conn (b_conn b) (c_key c)); [|reflexivity].
  destruct (k_dir (c_key c)); reflexivity.
Qed.

Lemma pd_attempts b c : b_attempts (peer_disconnected b c) = b_attempts b.
Proof.
  unfold peer_disconnected. destruct (find_conn (b_conn b) (c_key c)); [|reflexivity].
  destruct (k_dir (c_key c)); reflexivity.
Qed.

Lemma pd_Sane b c : Sane b -> Sane (peer_disconnected b c).
Proof.
  intros S x d Hx Hd.
  apply pd_disc_in in Hd. destruct Hd as [Hd|[E F]].
  - apply S; [eapply pd_conn_in; exact Hx | exact Hd].
  - rewrite E. eapply pd_conn_in_ne; eassumption.
Qed.

Lemma pd_nodup_conn b c : NoDup (map c_key (b_conn b)) -> NoDup (map c_key (b_conn (peer_disconnected b c))).
Proof.
  intros H. unfold peer_disconnected. destruct (find_conn (b_conn b) (c_key c)); [|exact H].
  destruct (k_dir (c_key c)); cbn; apply nodup_del_conn; exact H.
Qed.

Lemma pd_nodup_disc b c : NoDup (map d_key (b_disc b)) -> NoDup (map d_key (b_disc (peer_disconnected b c))).
Proof.
  intros H. unfold peer_disconnected. destruct (find_conn (b_conn b) (c_key c)); [|exact H].
  destruct (k_dir (c_key c)); cbn; [exact H|]. apply (nodup_set_disc (b_disc b) (mkD _ _ _)); exact H.
Qed.

Lemma pd_Inv b c : Inv b -> Inv (peer_disconnected b c).
Proof.
  intros (H1 & H2 & H3). split; [|split].
  - apply pd_nodup_conn; exact H1.
  - apply pd_nodup_disc; exact H2.
  - apply sane_iff, pd_Sane, sane_iff; exact H3.
Qed.

(* ---- peer_connected ---- *)
Definition pc_pre (b : book) (c : conn) : book :=
  match find_conn (b_conn b) (c_key c) with Some old => peer_disconnected b old | None => b end.

Lemma pc_unfold b c :
  peer_connected b c = mkBook (set_conn (b_conn (pc_pre b c)) c) (del_disc (b_disc (pc_pre b c)) (c_key c))
                              (b_mine (pc_pre b c)) (b_attempts (pc_pre b c)).
Proof. reflexivity. Qed.

Lemma pc_pre_Sane b c : Sane b -> Sane (pc_pre b c).
Proof. unfold pc_pre. destruct (find_conn _ _); [apply pd_Sane | tauto]. Qed.

Lemma pc_pre_Inv b c : Inv b -> Inv (pc_pre b c).
Proof. unfold pc_pre. destruct (find_conn _ _); [apply pd_Inv | tauto]. Qed.

Lemma pc_pre_mine b c : b_mine (pc_pre b c) = b_mine b.
Proof. unfold pc_pre. destruct (find_conn _ _); [apply pd_mine | reflexivity]. Qed.

Lemma pc_pre_attempts b c : b_attempts (pc_pre b c) = b_attempts b.
Proof. unfold pc_pre. destruct (find_conn _ _); [apply pd_attempts | reflexivity]. Qed.

Lemma pc_pre_conn_in b c x : In x (b_conn (pc_pre b c)) -> In x (b_conn b).
Proof. unfold pc_pre. destruct (find_conn _ _); [apply pd_conn_in | tauto]. Qed.

Lemma connect_Sane b c :
  Sane b -> Sane (mkBook (set_conn (b_conn b) c) (del_disc (b_disc b) (c_key c)) (b_mine b) (b_attempts b)).
Proof.
  intros S x d Hx Hd. cbn in Hx, Hd.
  apply in_set_conn in Hx. apply in_del_disc in Hd. destruct Hd as [Hd Hne].
  destruct Hx as [[Hx _]| ->]; [apply S; assumption | congruence].
Qed.

Lemma pc_Sane b c : Sane b -> Sane (peer_connected b c).
Proof. intros S. rewrite pc_unfold. apply (connect_Sane (pc_pre b c) c), pc_pre_Sane, S. Qed.

Lemma pc_Inv b c : Inv b -> Inv (peer_connected b c).
Proof.
  intros H. pose proof (pc_pre_Inv b c H) as (H1 & H2 & H3). rewrite pc_unfold. split; [|split].
  - cbn. apply nodup_set_conn; exact H1.
  - cbn. apply nodup_del_disc; exact H2.
  - apply sane_iff. apply (connect_Sane (pc_pre b c) c). apply sane_iff; exact H3.
Qed.

Lemma pc_mine b c : b_mine (peer_connected b c) = b_mine b.
Proof. exact (pc_pre_mine b c). Qed.

Lemma pc_attempts b c : b_attempts (peer_connected b c) = b_attempts b.
Proof. exact (pc_pre_attempts b c). Qed.

(* ---- start_outgoing / step ---- *)
Lemma so_unfold b d now fresh :
  start_outgoing b d now fresh =
  let b1 := peer_connected b (mkConn (d_key d) fresh false (d_ban d) (Some now)) in
  mkBook (b_conn b1) (b_disc b1) (b_mine b1) (b_attempts b1 ++ [(d_key d, now)]).
Proof. reflexivity. Qed.

Lemma so_Sane b d now fresh : Sane b -> Sane (start_outgoing b d now fresh).
Proof. intros S. rewrite so_unfold. exact (pc_Sane b _ S). Qed.

Lemma so_Inv b d now fresh : Inv b -> Inv (start_outgoing b d now fresh).
Proof.
  intros H. rewrite so_unfold. pose proof (pc_Inv b (mkConn (d_key d) fresh false (d_ban d) (Some now)) H) as (H1 & H2 & H3).
  split; [exact H1 | split; [exact H2|]]. apply sane_iff. apply sane_iff in H3. exact H3.
Qed.

Lemma so_mine b d now fresh : b_mine (start_outgoing b d now fresh) = b_mine b.
Proof. exact (pc_mine b (mkConn (d_key d) fresh false (d_ban d) (Some now))). Qed.

Lemma so_attempts b d now fresh : b_attempts (start_outgoing b d now fresh) = b_attempts b ++ [(d_key d, now)].
Proof.
  change (b_attempts (start_outgoing b d now fresh))
    with (b_attempts (peer_connected b (mkConn (d_key d) fresh false (d_ban d) (Some now))) ++ [(d_key d, now)]).
  rewrite pc_attempts. reflexivity.
Qed.

(* ---- learn ---- *)
Lemma learn_cases b k :
  learn b k = b \/
  (find_disc (b_disc b) k = None /\ find_conn (b_conn b) k = None /\
   learn b k = mkBook (b_conn b) (b_disc b ++ [mkD k 0 None]) (b_mine b) (b_attempts b)).
Proof.
  unfold learn. destruct (find_disc (b_disc b) k); [left; reflexivity|].
  destruct (find_conn (b_conn b) k); [left; reflexivity|]. right; auto.
Qed.

Lemma learn_conn b k : b_conn (learn b k) = b_conn b.
Proof. destruct (learn_cases b k) as [->|(_ & _ & ->)]; reflexivity. Qed.
Lemma learn_mine b k : b_mine (learn b k) = b_mine b.
Proof. destruct (learn_cases b k) as [->|(_ & _ & ->)]; reflexivity. Qed.
Lemma learn_attempts b k : b_attempts (learn b k) = b_attempts b.
Proof. destruct (learn_cases b k) as [->|(_ & _ & ->)]; reflexivity. Qed.

Lemma learn_Sane b k : Sane b -> Sane (learn b k).
Proof.
  intros S. destruct (learn_cases b k) as [->|(F1 & F2 & ->)]; [exact S|].
  intros c d Hc Hd. cbn in Hc, Hd. apply in_app_iff in Hd. destruct Hd as [Hd|[<-|[]]].
  - apply S; assumption.
  - cbn. exact (proj1 (find_conn_none _ _) F2 c Hc).
Qed.

Lemma learn_Inv b k : Inv b -> Inv (learn b k).
Proof.
  intros (H1 & H2 & H3). split; [|split].
  - rewrite learn_conn; exact H1.
  - destruct (learn_cases b k) as [->|(F1 & F2 & ->)]; [exact H2|]. cbn. rewrite map_app. cbn.
    apply NoDup_snoc. split; [exact H2|]. intros Hin. apply in_map_iff in Hin. destruct Hin as (d & E & Hd).
    exact (proj1 (find_disc_none _ _) F1 d Hd E).
  - apply sane_iff, learn_Sane, sane_iff; exact H3.
Qed.

(* ---- peers_msg ---- *)
Lemma peers_ind (P : book -> Prop) :
  (forall b k, P b -> P (learn b k)) -> forall l b, P b -> P (peers_msg b l).
Proof.
  intros HP l. unfold peers_msg. induction l as [|a l IH]; cbn; intros b Hb; [exact Hb|].
  apply IH. apply HP. exact Hb.
Qed.

Lemma peers_Sane b l : Sane b -> Sane (peers_msg b l).
Proof. apply peers_ind. intros; apply learn_Sane; assumption. Qed.
Lemma peers_Inv b l : Inv b -> Inv (peers_msg b l).
Proof. apply peers_ind. intros; apply learn_Inv; assumption. Qed.
Lemma peers_conn b l : b_conn (peers_msg b l) = b_conn b.
Proof. apply (peers_ind (fun x => b_conn x = b_conn b)); [|reflexivity]. intros x k H. rewrite learn_conn; exact H. Qed.
Lemma peers_mine b l : b_mine (peers_msg b l) = b_mine b.
Proof. apply (peers_ind (fun x => b_mine x = b_mine b)); [|reflexivity]. intros x k H. rewrite learn_mine; exact H. Qed.
Lemma peers_attempts b l : b_attempts (peers_msg b l) = b_attempts b.
Proof. apply (peers_ind (fun x => b_attempts x = b_attempts b)); [|reflexivity]. intros x k H. rewrite learn_attempts; exact H. Qed.

(* ---- hello ---- *)
Definition hello_c' (c : conn) : conn := mkConn (c_key c) (c_id c) true 0 (c_last c).
Definition hello_upd (b : book) (c : conn) : list conn :=
  map (fun x => if c_id x =? c_id c then hello_c' c else x) (b_conn b).

Lemma hello_unfold b c p m :
  hello b c p m =
  match k_dir (c_key c) with
  | Incoming => learn (mkBook (hello_upd b c) (b_disc b) (b_mine b) (b_attempts b)) (mkKey (k_host (c_key c)) p Outgoing)
  | Outgoing =>
      if m then peer_disconnected (mkBook (hello_upd b c) (b_disc b) (b_mine b ++ [(k_host (c_key c), k_port (c_key c))])
                                          (b_attempts b)) (hello_c' c)
      else mkBook (hello_upd b c) (b_disc b) (b_mine b) (b_attempts b)
  end.
Proof. reflexivity. Qed.

Lemma in_hello_upd b c x : In x (hello_upd b c) -> (In x (b_conn b) /\ c_id x <> c_id c) \/ x = hello_c' c.
Proof.
  unfold hello_upd. rewrite in_map_iff. intros (y & E & Hy).
  destruct (c_id y =? c_id c) eqn:I; [right; auto|]. apply N.eqb_neq in I. subst; left; auto.
Qed.

Lemma hello_upd_in b c : In c (b_conn b) -> In (hello_c' c) (hello_upd b c).
Proof.
  intros H. unfold hello_upd. apply in_map_iff. exists c. rewrite N.eqb_refl. auto.
Qed.

Lemma hello_upd_Sane b c m a : Sane b -> In c (b_conn b) -> Sane (mkBook (hello_upd b c) (b_disc b) m a).
Proof.
  intros S Hc x d Hx Hd. cbn in Hx, Hd. apply in_hello_upd in Hx. destruct Hx as [[Hx _]| ->].
  - apply S; assumption.
  - cbn. apply S; assumption.
Qed.

Definition id_unique (b : book) (c : conn) : Prop := forall x, In x (b_conn b) -> c_id x = c_id c -> x = c.

Lemma hello_upd_keys b c : id_unique b c -> map c_key (hello_upd b c) = map c_key (b_conn b).
Proof.
  intros U. unfold hello_upd. rewrite map_map. apply map_ext_in. intros x Hx.
  destruct (c_id x =? c_id c) eqn:I; [|reflexivity]. apply N.eqb_eq in I. rewrite (U x Hx I). reflexivity.
Qed.

Lemma hello_upd_ids b c : map c_id (hello_upd b c) = map c_id (b_conn b).
Proof.
  unfold hello_upd. rewrite map_map. apply map_ext. intros x.
  destruct (c_id x =? c_id c) eqn:I; [|reflexivity]. apply N.eqb_eq in I. cbn. congruence.
Qed.

Lemma hello_Sane b c p m : Sane b -> In c (b_conn b) -> Sane (hello b c p m).
Proof.
  intros S Hc. rewrite hello_unfold. destruct (k_dir (c_key c)).
  - apply learn_Sane, hello_upd_Sane; assumption.
  - destruct m; [apply pd_Sane|]; apply hello_upd_Sane; assumption.
Qed.

Lemma hello_upd_Inv b c m a : Inv b -> In c (b_conn b) -> id_unique b c -> Inv (mkBook (hello_upd b c) (b_disc b) m a).
Proof.
  intros (H1 & H2 & H3) Hc U. split; [|split].
  - cbn. rewrite hello_upd_keys; assumption.
  - exact H2.
  - apply sane_iff, hello_upd_Sane; [apply sane_iff|]; assumption.
Qed.

Lemma hello_Inv b c p m : Inv b -> In c (b_conn b) -> id_unique b c -> Inv (hello b c p m).
Proof.
  intros I Hc U. rewrite hello_unfold. destruct (k_dir (c_key c)).
  - apply learn_Inv, hello_upd_Inv; assumption.
  - destruct m; [apply pd_Inv|]; apply hello_upd_Inv; assumption.
Qed.

(* ------------------------------------------------------------------ *)
(* 3. step, events, runs (for arbitrary back-off parameters)           *)
(* ------------------------------------------------------------------ *)
Section Run.
  Variables fw mw ma : N.   (* first_wait max_wait max_attempts *)

  Lemma due_mine b b' now d : b_mine b = b_mine b' -> due fw mw ma b now d = due fw mw ma b' now d.
  Proof. unfold due. intros ->. reflexivity. Qed.

  Lemma step_disc_Sane ds : forall b now fresh, Sane b -> Sane (step_disc fw mw ma b ds now fresh).
  Proof.
    induction ds as [|d r IH]; intros b now fresh S; cbn [step_disc]; [exact S|].
    destruct (due fw mw ma b now d); apply IH; [apply so_Sane|]; exact S.
  Qed.

  Lemma step_disc_Inv ds : forall b now fresh, Inv b -> Inv (step_disc fw mw ma b ds now fresh).
  Proof.
    induction ds as [|d r IH]; intros b now fresh S; cbn [step_disc]; [exact S|].
    destruct (due fw mw ma b now d); apply IH; [apply so_Inv|]; exact S.
  Qed.

  Lemma step_disc_mine ds : forall b now fresh, b_mine (step_disc fw mw ma b ds now fresh) = b_mine b.
  Proof.
    induction ds as [|d r IH]; intros b now fresh; cbn [step_disc]; [reflexivity|].
    destruct (due fw mw ma b now d); rewrite IH; [apply so_mine | reflexivity].
  Qed.

  (* the attempts made by one manager step are exactly the due entries of the snapshot, in order *)
  Lemma step_disc_attempts ds : forall b now fresh,
    b_attempts (step_disc fw mw ma b ds now fresh)
    = b_attempts b ++ map (fun d => (d_key d, now)) (filter (due fw mw ma b now) ds).
  Proof.
    induction ds as [|d r IH]; intros b now fresh; cbn [step_disc filter]; [cbn; rewrite app_nil_r; reflexivity|].
    destruct (due fw mw ma b now d) eqn:E.
    - rewrite IH, so_attempts, <- app_assoc. cbn [map app]. do 3 f_equal.
      apply filter_ext. intros x. apply due_mine. apply so_mine.
    - apply IH.
  Qed.

  Theorem step_attempts_exact b now fresh :
    b_attempts (step fw mw ma b now fresh)
    = b_attempts b ++ map (fun d => (d_key d, now)) (filter (due fw mw ma b now) (b_disc b)).
  Proof. apply step_disc_attempts. Qed.

  Theorem step_attempts_only_due b now fresh :
    exists new, b_attempts (step fw mw ma b now fresh) = b_attempts b ++ new /\
      forall k t, In (k, t) new -> t = now /\ exists d, In d (b_disc b) /\ d_key d = k /\ due fw mw ma b now d = true.
  Proof.
    eexists. split; [apply step_attempts_exact|].
    intros k t Hin. apply in_map_iff in Hin. destruct Hin as (d & E & Hd). inversion E; subst.
    apply filter_In in Hd. split; [reflexivity|]. exists d. tauto.
  Qed.

  (* ---- events ---- *)
  Inductive ev :=
  | EStep (now : N)
  | EAccept (k : pkey) (id : N)            (* incoming connection from (k_host k, k_port k); direction forced to Incoming *)
  | EHello (id : N) (my_port : N) (mine : bool)
  | EPeers (l : list (N * N))
  | EDisconnect (id : N)
  | EDisconnectStale (c : conn).

  (* run state: the book, the next fresh connection id, and a ghost log (key, time, ban score of the
     disconnected entry that was used) parallel to b_attempts *)
  Record st := mkSt { s_book : book; s_next : N; s_glog : list (pkey * N * N) }.

  Definition find_id (l : list conn) (id : N) : option conn := find (fun c => c_id c =? id) l.

  Definition accept_conn (k : pkey) (id : N) : conn := mkConn (mkKey (k_host k) (k_port k) Incoming) id false 0 None.

  Definition apply_ev (s : st) (e : ev) : st :=
    let b := s_book s in
    match e with
    | EStep now =>
        mkSt (step fw mw ma b now (s_next s)) (s_next s + N.of_nat (length (b_disc b)))
             (s_glog s ++ map (fun d => (d_key d, now, d_ban d)) (filter (due fw mw ma b now) (b_disc b)))
    | EAccept k id => mkSt (peer_connected b (accept_conn k id)) (N.max (s_next s) (id + 1)) (s_glog s)
    | EHello id p m =>
        match find_id (b_conn b) id with
        | Some c => mkSt (hello b c p m) (s_next s) (s_glog s)
        | None => s
        end
    | EPeers l => mkSt (peers_msg b l) (s_next s) (s_glog s)
    | EDisconnect id =>
        match find_id (b_conn b) id with
        | Some c => mkSt (peer_disconnected b c) (s_next s) (s_glog s)
        | None => s
        end
    | EDisconnectStale c => mkSt (peer_disconnected b c) (s_next s) (s_glog s)
    end.

  Definition s_init : st := mkSt book_empty 0 [].
  Definition run_from (s : st) (evs : list ev) : st := fold_left apply_ev evs s.
  Definition run (evs : list ev) : st := run_from s_init evs.

  Lemma find_id_some l id c : find_id l id = Some c -> In c l /\ c_id c = id.
  Proof. unfold find_id. intros H. apply find_some in H. rewrite N.eqb_eq in H. exact H. Qed.

  (* ---- 3a. sanity alone is preserved by EVERY event, with no assumption on connection ids ---- *)
  Theorem apply_Sane s e : Sane (s_book s) -> Sane (s_book (apply_ev s e)).
  Proof.
    intros S. destruct e as [now|k id|id p m|l|id|c]; cbn [apply_ev s_book].
    - apply step_disc_Sane; exact S.
    - apply pc_Sane; exact S.
    - destruct (find_id _ id) as [c|] eqn:F; [|exact S]. cbn [s_book].
      apply find_id_some in F. apply hello_Sane; tauto.
    - apply peers_Sane; exact S.
    - destruct (find_id _ id) as [c|] eqn:F; [|exact S]. cbn [s_book]. apply pd_Sane; exact S.
    - apply pd_Sane; exact S.
  Qed.

  Theorem run_from_Sane evs : forall s, Sane (s_book s) -> Sane (s_book (run_from s evs)).
  Proof.
    unfold run_from. induction evs as [|e r IH]; intros s S; cbn [fold_left]; [exact S|].
    apply IH, apply_Sane, S.
  Qed.

  Theorem C19_sane_always evs : sane (s_book (run evs)) = true.
  Proof. apply sane_iff, run_from_Sane. intros c d []. Qed.

  (* ---- 3b. the full invariant: needs connection-object identities to be unique ---- *)
  Definition IdInv (b : book) (n : N) : Prop :=
    NoDup (map c_id (b_conn b)) /\ forall c, In c (b_conn b) -> c_id c < n.

  Definition SInv (s : st) : Prop := Inv (s_book s) /\ IdInv (s_book s) (s_next s).

  (* an accepted connection object must be a NEW object: its identity is not that of a live connection *)
  Definition ev_wf (s : st) (e : ev) : Prop :=
    match e with
    | EAccept _ id => forall c, In c (b_conn (s_book s)) -> c_id c <> id
    | _ => True
    end.

  Lemma IdInv_weaken b n m : IdInv b n -> n <= m -> IdInv b m.
  Proof. intros [H1 H2] L. split; [exact H1|]. intros c Hc. specialize (H2 c Hc). lia. Qed.

  Lemma IdInv_unique b n c : IdInv b n -> In c (b_conn b) -> id_unique b c.
  Proof. intros [H _] Hc x Hx E. exact (NoDup_map_inj_in c_id _ x c H Hx Hc E). Qed.

  Lemma pd_IdInv b c n : IdInv b n -> IdInv (peer_disconnected b c) n.
  Proof.
    intros [H1 H2]. split.
    - unfold peer_disconnected. destruct (find_conn (b_conn b) (c_key c)); [|exact H1].
      destruct (k_dir (c_key c)); cbn; apply NoDup_map_filter; exact H1.
    - intros x Hx. apply H2. eapply pd_conn_in; exact Hx.
  Qed.

  Lemma pc_IdInv b c n m :
    IdInv b n -> (forall x, In x (b_conn b) -> c_id x <> c_id c) -> n <= m -> c_id c < m ->
    IdInv (peer_connected b c) m.
  Proof.
    intros [H1 H2] Hfresh L Lc. rewrite pc_unfold. split; cbn [b_conn].
    - unfold set_conn. rewrite map_app. cbn. apply NoDup_snoc. split.
      + apply NoDup_map_filter. unfold pc_pre. destruct (find_conn (b_conn b) (c_key c)); [|exact H1].
        apply pd_IdInv with (n := n). split; assumption.
      + intros Hin. apply in_map_iff in Hin. destruct Hin as (x & E & Hx).
        apply in_del_conn in Hx. destruct Hx as [Hx _]. apply pc_pre_conn_in in Hx.
        exact (Hfresh x Hx E).
    - intros x Hx. apply in_set_conn in Hx. destruct Hx as [[Hx _]| ->]; [|exact Lc].
      apply pc_pre_conn_in in Hx. specialize (H2 x Hx). lia.
  Qed.

  Lemma so_IdInv b d now fresh : IdInv b fresh -> IdInv (start_outgoing b d now fresh) (fresh + 1).
  Proof.
    intros H.
    apply (pc_IdInv b (mkConn (d_key d) fresh false (d_ban d) (Some now)) fresh (fresh + 1) H); cbn [c_id]; try lia.
    intros x Hx. destruct H as [_ H]. specialize (H x Hx). lia.
  Qed.

  Lemma step_disc_IdInv ds : forall b now fresh,
    IdInv b fresh -> IdInv (step_disc fw mw ma b ds now fresh) (fresh + N.of_nat (length ds)).
  Proof.
    induction ds as [|d r IH]; intros b now fresh H; cbn [step_disc length].
    - eapply IdInv_weaken; [exact H | lia].
    - destruct (due fw mw ma b now d).
      + specialize (IH _ now _ (so_IdInv b d now fresh H)). eapply IdInv_weaken; [exact IH | lia].
      + specialize (IH _ now _ H). eapply IdInv_weaken; [exact IH | lia].
  Qed.

  Lemma learn_IdInv b k n : IdInv b n -> IdInv (learn b k) n.
  Proof. unfold IdInv. rewrite learn_conn. tauto. Qed.

  Lemma peers_IdInv b l n : IdInv b n -> IdInv (peers_msg b l) n.
  Proof. unfold IdInv. rewrite peers_conn. tauto. Qed.

  Lemma hello_upd_IdInv b c n m a : IdInv b n -> In c (b_conn b) -> IdInv (mkBook (hello_upd b c) (b_disc b) m a) n.
  Proof.
    intros [H1 H2] Hc. split; cbn [b_conn].
    - rewrite hello_upd_ids. exact H1.
    - intros x Hx. apply in_hello_upd in Hx. destruct Hx as [[Hx _]| ->]; [auto|]. cbn. auto.
  Qed.

  Lemma hello_IdInv b c p m n : IdInv b n -> In c (b_conn b) -> IdInv (hello b c p m) n.
  Proof.
    intros I Hc. rewrite hello_unfold. destruct (k_dir (c_key c)).
    - apply learn_IdInv, hello_upd_IdInv; assumption.
    - destruct m; [apply pd_IdInv|]; apply hello_upd_IdInv; assumption.
  Qed.

  Theorem apply_SInv s e : SInv s -> ev_wf s e -> SInv (apply_ev s e).
  Proof.
    intros [I D] W. destruct e as [now|k id|id p m|l|id|c]; cbn [apply_ev].
    - split; cbn [s_book s_next]; [apply step_disc_Inv; exact I | apply step_disc_IdInv; exact D].
    - split; cbn [s_book s_next]; [apply pc_Inv; exact I|].
      apply (pc_IdInv _ (accept_conn k id) (s_next s)); cbn [accept_conn c_id]; try lia; [exact D | exact W].
    - destruct (find_id _ id) as [c|] eqn:F; [|split; assumption].
      apply find_id_some in F. destruct F as [Hc _]. split; cbn [s_book s_next].
      + apply hello_Inv; [exact I | exact Hc | eapply IdInv_unique; eassumption].
      + apply hello_IdInv; assumption.
    - split; cbn [s_book s_next]; [apply peers_Inv; exact I | apply peers_IdInv; exact D].
    - destruct (find_id _ id) as [c|] eqn:F; [|split; assumption].
      split; cbn [s_book s_next]; [apply pd_Inv; exact I | apply pd_IdInv; exact D].
    - split; cbn [s_book s_next]; [apply pd_Inv; exact I | apply pd_IdInv; exact D].
  Qed.

  Fixpoint wf_run (s : st) (evs : list ev) : Prop :=
    match evs with
    | [] => True
    | e :: r => ev_wf s e /\ wf_run (apply_ev s e) r
    end.

  Lemma SInv_init : SInv s_init.
  Proof. split; [exact Inv_empty | split; [constructor | intros c []]]. Qed.

  Theorem run_from_SInv evs : forall s, SInv s -> wf_run s evs -> SInv (run_from s evs).
  Proof.
    unfold run_from. induction evs as [|e r IH]; intros s S W; cbn [fold_left]; [exact S|].
    destruct W as [W1 W2]. apply IH; [apply apply_SInv; assumption | exact W2].
  Qed.

  (* guarded run: an EAccept that re-uses the identity of a live connection object is impossible in the real
     node (object identity) and is skipped; with this run function the invariant holds for EVERY event list *)
  Definition ev_wfb (s : st) (e : ev) : bool :=
    match e with
    | EAccept _ id => negb (existsb (fun c => c_id c =? id) (b_conn (s_book s)))
    | _ => true
    end.

  Lemma ev_wfb_spec s e : ev_wfb s e = true -> ev_wf s e.
  Proof.
    destruct e; cbn; auto. rewrite negb_true_iff. intros H c Hc E.
    assert (X : existsb (fun c => c_id c =? id) (b_conn (s_book s)) = true)
      by (apply existsb_exists; exists c; split; [exact Hc | apply N.eqb_eq; exact E]).
    congruence.
  Qed.

  Definition apply_g (s : st) (e : ev) : st := if ev_wfb s e then apply_ev s e else s.
  Definition run_g (evs : list ev) : st := fold_left apply_g evs s_init.

  Lemma apply_g_SInv s e : SInv s -> SInv (apply_g s e).
  Proof.
    intros S. unfold apply_g. destruct (ev_wfb s e) eqn:W; [|exact S].
    apply apply_SInv; [exact S | apply ev_wfb_spec; exact W].
  Qed.

  Theorem run_g_SInv evs : SInv (run_g evs).
  Proof.
    unfold run_g. generalize SInv_init. generalize s_init.
    induction evs as [|e r IH]; intros s S; cbn [fold_left]; [exact S|]. apply IH, apply_g_SInv, S.
  Qed.

  (* C19_disjoint *)
  Theorem C19_disjoint :
    Inv book_empty /\
    (forall s e, SInv s -> ev_wf s e -> SInv (apply_ev s e)) /\
    (forall evs, wf_run s_init evs -> Inv (s_book (run evs))) /\
    (forall evs, Inv (s_book (run_g evs))) /\
    (forall evs, sane (s_book (run evs)) = true).
  Proof.
    split; [exact Inv_empty|]. split; [exact apply_SInv|]. split; [|split].
    - intros evs W. exact (proj1 (run_from_SInv evs s_init SInv_init W)).
    - intros evs. exact (proj1 (run_g_SInv evs)).
    - exact C19_sane_always.
  Qed.

  (* ---------------------------------------------------------------- *)
  (* 4. back-off                                                       *)
  (* ---------------------------------------------------------------- *)
  Lemma backoff_decision d now t :
    is_time_to_connect fw mw ma d now = true -> d_last d = Some t -> wait_for fw mw (d_ban d) <= now - t.
  Proof.
    unfold is_time_to_connect. destruct (ma <? d_ban d); [discriminate|].
    intros H E. rewrite E in H. apply N.leb_le. exact H.
  Qed.

  Lemma backoff_max d now : ma < d_ban d -> is_time_to_connect fw mw ma d now = false.
  Proof. intros H. unfold is_time_to_connect. apply N.ltb_lt in H. rewrite H. reflexivity. Qed.

  Lemma itc_ban d now : is_time_to_connect fw mw ma d now = true -> d_ban d <= ma.
  Proof.
    unfold is_time_to_connect. destruct (ma <? d_ban d) eqn:E; [discriminate|]. intros _.
    apply N.ltb_ge in E. exact E.
  Qed.

  Lemma due_true b now d : due fw mw ma b now d = true ->
    k_dir (d_key d) = Outgoing /\
    ~ In (k_host (d_key d), k_port (d_key d)) (b_mine b) /\
    is_time_to_connect fw mw ma d now = true.
  Proof.
    unfold due. rewrite !andb_true_iff, dir_eqb_eq, negb_true_iff. intros [[H1 H2] H3].
    split; [exact H1 | split; [|exact H3]]. intros Hin.
    assert (X : existsb (fun a => (fst a =? k_host (d_key d)) && (snd a =? k_port (d_key d))) (b_mine b) = true).
    { apply existsb_exists. eexists; split; [exact Hin|]. cbn. rewrite !N.eqb_refl. reflexivity. }
    congruence.
  Qed.

  Theorem C19_backoff :
    (forall d now t, is_time_to_connect fw mw ma d now = true -> d_last d = Some t -> t <= now ->
                     wait_for fw mw (d_ban d) <= now - t) /\
    (forall d now, ma < d_ban d -> is_time_to_connect fw mw ma d now = false).
  Proof. split; [intros d now t H E _; exact (backoff_decision d now t H E) | exact backoff_max]. Qed.

  (* time of the last logged attempt for key k *)
  Fixpoint last_att (l : list (pkey * N)) (k : pkey) : option N :=
    match l with
    | [] => None
    | a :: r => match last_att r k with
                | Some t => Some t
                | None => if key_eqb (fst a) k then Some (snd a) else None
                end
    end.

  Lemma last_att_app l1 l2 k :
    last_att (l1 ++ l2) k = match last_att l2 k with Some t => Some t | None => last_att l1 k end.
  Proof.
    induction l1 as [|a l1 IH]; cbn [app last_att].
    - destruct (last_att l2 k); reflexivity.
    - rewrite IH. destruct (last_att l2 k); reflexivity.
  Qed.

  Lemma last_att_snoc l k' t k : last_att (l ++ [(k', t)]) k = if key_eqb k' k then Some t else last_att l k.
  Proof. rewrite last_att_app. cbn. destruct (key_eqb k' k); reflexivity. Qed.

  Lemma last_att_some_in l k t : last_att l k = Some t -> In (k, t) l.
  Proof.
    induction l as [|[k' t'] l IH]; cbn [last_att]; [discriminate|].
    destruct (last_att l k) as [t0|].
    - intros E; inversion E; subst. right; apply IH; reflexivity.
    - cbn [fst snd]. destruct (key_eqb k' k) eqn:K; [|discriminate]. apply key_eqb_eq in K.
      intros E; inversion E; subst. left; reflexivity.
  Qed.

  Lemma last_att_none l k : last_att l k = None <-> forall t, ~ In (k, t) l.
  Proof.
    split.
    - induction l as [|[k' t'] l IH]; cbn [last_att]; [intros _ t []|].
      destruct (last_att l k) as [t0|]; [discriminate|]. cbn [fst snd].
      destruct (key_eqb k' k) eqn:K; [discriminate|]. apply key_eqb_neq in K.
      intros _ t [E|Hin]; [inversion E; subst; congruence | exact (IH eq_refl t Hin)].
    - intros H. destruct (last_att l k) as [t|] eqn:E; [|reflexivity].
      apply last_att_some_in in E. exfalso; exact (H t E).
  Qed.

  Definition HasKey (b : book) (k : pkey) : Prop :=
    In k (map c_key (b_conn b)) \/ In k (map d_key (b_disc b)).

  (* link between the attempt log and the book; T bounds all logged times *)
  Definition LogInv (b : book) (T : N) : Prop :=
    (forall d, In d (b_disc b) -> d_last d = last_att (b_attempts b) (d_key d)) /\
    (forall c, In c (b_conn b) -> c_last c = last_att (b_attempts b) (c_key c)) /\
    (forall k t, In (k, t) (b_attempts b) -> HasKey b k /\ k_dir k = Outgoing /\ t <= T) /\
    (forall d, In d (b_disc b) -> k_dir (d_key d) = Outgoing).

  Lemma LogInv_empty : LogInv book_empty 0.
  Proof. repeat split; cbn; intros; contradiction. Qed.

  Lemma LogInv_weaken b T T' : LogInv b T -> T <= T' -> LogInv b T'.
  Proof.
    intros (A & B & C & D) L. repeat split; auto; destruct (C k t H) as (? & ? & ?); auto. lia.
  Qed.

  Lemma LogInv_incoming b T k : LogInv b T -> k_dir k = Incoming -> last_att (b_attempts b) k = None.
  Proof.
    intros (_ & _ & C & _) E. apply last_att_none. intros t Hin. destruct (C k t Hin) as (_ & O & _). congruence.
  Qed.

  Lemma pd_Log b c T :
    LogInv b T ->
    (k_dir (c_key c) = Incoming \/ c_last c = last_att (b_attempts b) (c_key c)) ->
    LogInv (peer_disconnected b c) T.
  Proof.
    intros (A & B & C & D) Hc. unfold peer_disconnected.
    destruct (find_conn (b_conn b) (c_key c)) eqn:F; [|repeat split; auto; apply (C k t H)].
    destruct (k_dir (c_key c)) eqn:Dir.
    - (* Incoming *)
      split; [|split; [|split]]; cbn [b_conn b_disc b_attempts]; auto.
      + intros x Hx. apply in_del_conn in Hx. apply B; tauto.
      + intros k t Hin. destruct (C k t Hin) as (HK & O & L). split; [|auto].
        destruct HK as [HK|HK]; [left|right; exact HK]. cbn [b_conn].
        apply in_map_iff in HK. destruct HK as (x & E & Hx). apply in_map_iff. exists x. split; [exact E|].
        apply in_del_conn. split; [exact Hx|]. intros E'. congruence.
    - (* Outgoing *)
      destruct Hc as [Hc|Hc]; [congruence|].
      split; [|split; [|split]]; cbn [b_conn b_disc b_attempts].
      + intros d Hd. apply in_set_disc in Hd. destruct Hd as [[Hd _]| ->]; [auto|]. cbn. exact Hc.
      + intros x Hx. apply in_del_conn in Hx. apply B; tauto.
      + intros k t Hin. destruct (C k t Hin) as (HK & O & L). split; [|auto].
        destruct (key_eq_dec k (c_key c)) as [->|Ne].
        * right. cbn [b_disc]. apply in_map_iff. eexists. split; [|apply in_set_disc; right; reflexivity]. reflexivity.
        * destruct HK as [HK|HK]; [left|right]; apply in_map_iff in HK; destruct HK as (x & E & Hx);
            apply in_map_iff; exists x; (split; [exact E|]).
          -- cbn [b_conn]. apply in_del_conn. split; [exact Hx | congruence].
          -- cbn [b_disc]. apply in_set_disc. left. split; [exact Hx | cbn; congruence].
      + intros d Hd. apply in_set_disc in Hd. destruct Hd as [[Hd _]| ->]; [auto|]. cbn. exact Dir.
  Qed.

  Lemma pc_pre_Log b c T : LogInv b T -> LogInv (pc_pre b c) T.
  Proof.
    intros H. unfold pc_pre. destruct (find_conn (b_conn b) (c_key c)) as [old|] eqn:F; [|exact H].
    apply pd_Log; [exact H|]. right. apply find_conn_some in F. destruct H as (_ & B & _). apply B; tauto.
  Qed.

  Lemma connect_Log b c log' T T' :
    LogInv b T -> T <= T' ->
    ((log' = b_attempts b /\ k_dir (c_key c) = Incoming /\ c_last c = None) \/
     (exists now, log' = b_attempts b ++ [(c_key c, now)] /\ k_dir (c_key c) = Outgoing /\
                  c_last c = Some now /\ now <= T')) ->
    LogInv (mkBook (set_conn (b_conn b) c) (del_disc (b_disc b) (c_key c)) (b_mine b) log') T'.
  Proof.
    intros H L Hc. pose proof H as (A & B & C & D).
    assert (HKpres : forall k, HasKey b k -> k <> c_key c ->
                HasKey (mkBook (set_conn (b_conn b) c) (del_disc (b_disc b) (c_key c)) (b_mine b) log') k).
    { intros k HK Ne. destruct HK as [HK|HK]; [left|right]; apply in_map_iff in HK; destruct HK as (x & E & Hx);
        apply in_map_iff; exists x; (split; [exact E|]); cbn [b_conn b_disc].
      - apply in_set_conn. left. split; [exact Hx | congruence].
      - apply in_del_disc. split; [exact Hx | congruence]. }
    assert (HKc : HasKey (mkBook (set_conn (b_conn b) c) (del_disc (b_disc b) (c_key c)) (b_mine b) log') (c_key c)).
    { left. cbn [b_conn]. apply in_map. apply in_set_conn. right; reflexivity. }
    destruct Hc as [(-> & Dir & Last)|(now & -> & Dir & Last & Lnow)].
    - split; [|split; [|split]]; cbn [b_conn b_disc b_attempts].
      + intros d Hd. apply in_del_disc in Hd. apply A; tauto.
      + intros x Hx. apply in_set_conn in Hx. destruct Hx as [[Hx _]| ->]; [auto|].
        rewrite Last. symmetry. eapply LogInv_incoming; eassumption.
      + intros k t Hin. destruct (C k t Hin) as (HK & O & Lt). split; [|split; [exact O | lia]].
        apply HKpres; [exact HK | congruence].
      + intros d Hd. apply in_del_disc in Hd. apply D; tauto.
    - split; [|split; [|split]]; cbn [b_conn b_disc b_attempts].
      + intros d Hd. apply in_del_disc in Hd. destruct Hd as [Hd Ne]. rewrite last_att_snoc.
        assert (K : key_eqb (c_key c) (d_key d) = false) by (apply key_eqb_neq; congruence).
        rewrite K. auto.
      + intros x Hx. apply in_set_conn in Hx. rewrite last_att_snoc. destruct Hx as [[Hx Ne]| ->].
        * assert (K : key_eqb (c_key c) (c_key x) = false) by (apply key_eqb_neq; congruence).
          rewrite K. auto.
        * rewrite key_eqb_refl. exact Last.
      + intros k t Hin. apply in_app_iff in Hin. destruct Hin as [Hin|[E|[]]].
        * destruct (C k t Hin) as (HK & O & Lt). split; [|split; [exact O | lia]].
          destruct (key_eq_dec k (c_key c)) as [->|Ne]; [exact HKc | apply HKpres; assumption].
        * inversion E; subst. split; [exact HKc | split; [exact Dir | exact Lnow]].
      + intros d Hd. apply in_del_disc in Hd. apply D; tauto.
  Qed.

  Lemma accept_Log b k id T : LogInv b T -> LogInv (peer_connected b (accept_conn k id)) T.
  Proof.
    intros H. rewrite pc_unfold.
    apply (connect_Log (pc_pre b (accept_conn k id)) (accept_conn k id) _ T T (pc_pre_Log b _ T H) (N.le_refl T)).
    left. cbn. auto.
  Qed.

  Lemma so_Log b d now fresh T :
    LogInv b T -> T <= now -> k_dir (d_key d) = Outgoing -> LogInv (start_outgoing b d now fresh) now.
  Proof.
    intros H L Dir.
    set (c := mkConn (d_key d) fresh false (d_ban d) (Some now)).
    change (start_outgoing b d now fresh)
      with (mkBook (set_conn (b_conn (pc_pre b c)) c) (del_disc (b_disc (pc_pre b c)) (c_key c))
                   (b_mine (pc_pre b c)) (b_attempts (pc_pre b c) ++ [(d_key d, now)])).
    apply (connect_Log (pc_pre b c) c _ T now (pc_pre_Log b c T H) L).
    right. exists now. cbn. repeat split; auto. lia.
  Qed.

  Lemma step_disc_Log ds : forall b now fresh T,
    LogInv b T -> T <= now -> LogInv (step_disc fw mw ma b ds now fresh) now.
  Proof.
    induction ds as [|d r IH]; intros b now fresh T H L; cbn [step_disc].
    - eapply LogInv_weaken; eassumption.
    - destruct (due fw mw ma b now d) eqn:E.
      + apply due_true in E. destruct E as (Dir & _). apply (IH _ now _ now); [|lia].
        eapply so_Log; eassumption.
      + eapply IH; eassumption.
  Qed.

  Lemma learn_Log b k T : LogInv b T -> k_dir k = Outgoing -> LogInv (learn b k) T.
  Proof.
    intros H Dir. destruct (learn_cases b k) as [->|(F1 & F2 & ->)]; [exact H|].
    destruct H as (A & B & C & D). split; [|split; [|split]]; cbn [b_conn b_disc b_attempts].
    - intros d Hd. apply in_app_iff in Hd. destruct Hd as [Hd|[<-|[]]]; [auto|]. cbn.
      symmetry. apply last_att_none. intros t Hin. destruct (C k t Hin) as (HK & _).
      destruct HK as [HK|HK]; apply in_map_iff in HK; destruct HK as (x & E & Hx).
      + exact (proj1 (find_conn_none _ _) F2 x Hx E).
      + exact (proj1 (find_disc_none _ _) F1 x Hx E).
    - exact B.
    - intros k' t Hin. destruct (C k' t Hin) as (HK & O & L). split; [|auto].
      destruct HK as [HK|HK]; [left; exact HK | right]. cbn [b_disc]. rewrite map_app. apply in_or_app; left; exact HK.
    - intros d Hd. apply in_app_iff in Hd. destruct Hd as [Hd|[<-|[]]]; [auto|]. exact Dir.
  Qed.

  Lemma peers_Log l : forall b T, LogInv b T -> LogInv (peers_msg b l) T.
  Proof.
    unfold peers_msg. induction l as [|a l IH]; intros b T H; cbn [fold_left]; [exact H|].
    apply IH. apply learn_Log; [exact H | reflexivity].
  Qed.

  Lemma hello_upd_Log b c m T :
    LogInv b T -> In c (b_conn b) -> id_unique b c -> LogInv (mkBook (hello_upd b c) (b_disc b) m (b_attempts b)) T.
  Proof.
    intros (A & B & C & D) Hc U. split; [|split; [|split]]; cbn [b_conn b_disc b_attempts]; auto.
    - intros x Hx. apply in_hello_upd in Hx. destruct Hx as [[Hx _]| ->]; [auto|]. cbn. auto.
    - intros k t Hin. destruct (C k t Hin) as (HK & O & L). split; [|auto].
      destruct HK as [HK|HK]; [left|right; exact HK]. cbn [b_conn]. rewrite hello_upd_keys; assumption.
  Qed.

  Lemma hello_Log b c p m T : LogInv b T -> In c (b_conn b) -> id_unique b c -> LogInv (hello b c p m) T.
  Proof.
    intros H Hc U. rewrite hello_unfold. destruct (k_dir (c_key c)).
    - apply learn_Log; [apply hello_upd_Log; assumption | reflexivity].
    - destruct m; [|apply hello_upd_Log; assumption].
      apply pd_Log; [apply hello_upd_Log; assumption|]. right. cbn. destruct H as (_ & B & _). auto.
  Qed.

  Lemma hello_attempts b c p m : b_attempts (hello b c p m) = b_attempts b.
  Proof.
    rewrite hello_unfold. destruct (k_dir (c_key c)); [rewrite learn_attempts; reflexivity|].
    destruct m; [rewrite pd_attempts|]; reflexivity.
  Qed.

  (* event times, monotone runs, harmless stale disconnects *)
  Definition ev_time (T : N) (e : ev) : N := match e with EStep now => now | _ => T end.

  Fixpoint mono_from (T : N) (evs : list ev) : Prop :=
    match evs with
    | [] => True
    | e :: r => T <= ev_time T e /\ mono_from (ev_time T e) r
    end.

  Definition stale_ok (e : ev) : Prop :=
    match e with EDisconnectStale c => k_dir (c_key c) = Incoming | _ => True end.

  Lemma apply_Log s e T :
    SInv s -> LogInv (s_book s) T -> stale_ok e -> T <= ev_time T e ->
    LogInv (s_book (apply_ev s e)) (ev_time T e).
  Proof.
    intros [I Dd] H St L. destruct e as [now|k id|id p m|l|id|c]; cbn [apply_ev ev_time] in *.
    - cbn [s_book]. eapply step_disc_Log; eassumption.
    - cbn [s_book]. apply accept_Log; exact H.
    - destruct (find_id _ id) as [c|] eqn:F; [|exact H]. cbn [s_book].
      apply find_id_some in F. destruct F as [Hc _].
      apply hello_Log; [exact H | exact Hc | eapply IdInv_unique; eassumption].
    - cbn [s_book]. apply peers_Log; exact H.
    - destruct (find_id _ id) as [c|] eqn:F; [|exact H]. cbn [s_book].
      apply find_id_some in F. destruct F as [Hc _].
      apply pd_Log; [exact H|]. right. destruct H as (_ & B & _). auto.
    - cbn [s_book]. apply pd_Log; [exact H|]. left; exact St.
  Qed.

  (* spacing of the (ghost-annotated) attempt log: every attempt respects the back-off relative to the previous
     attempt for the same key, with the ban score the entry had when the decision was taken *)
  Definition Spaced (L : list (pkey * N * N)) : Prop :=
    forall P k t2 n2 S, L = P ++ (k, t2, n2) :: S ->
      n2 <= ma /\
      forall t1, last_att (map fst P) k = Some t1 -> wait_for fw mw n2 <= t2 - t1 /\ t1 <= t2.

  Definition GInv (s : st) : Prop :=
    map fst (s_glog s) = b_attempts (s_book s) /\ Spaced (s_glog s).

  Lemma apply_attempts_nostep s e :
    (forall now, e <> EStep now) ->
    b_attempts (s_book (apply_ev s e)) = b_attempts (s_book s) /\ s_glog (apply_ev s e) = s_glog s.
  Proof.
    intros NS. destruct e as [now|k id|id p m|l|id|c]; cbn [apply_ev].
    - exfalso; exact (NS now eq_refl).
    - cbn [s_book s_glog]. rewrite pc_attempts. auto.
    - destruct (find_id _ id); cbn [s_book s_glog]; [rewrite hello_attempts|]; auto.
    - cbn [s_book s_glog]. rewrite peers_attempts. auto.
    - destruct (find_id _ id); cbn [s_book s_glog]; [rewrite pd_attempts|]; auto.
    - cbn [s_book s_glog]. rewrite pd_attempts. auto.
  Qed.

  Lemma step_G s now T :
    Inv (s_book s) -> LogInv (s_book s) T -> T <= now -> GInv s -> GInv (apply_ev s (EStep now)).
  Proof.
    intros (_ & NDd & _) (A & _ & C & _) L [G1 G2]. cbn [apply_ev].
    set (b := s_book s) in *. set (F := filter (due fw mw ma b now) (b_disc b)).
    set (g := fun d : dpeer => (d_key d, now, d_ban d)).
    split; cbn [s_glog s_book].
    - rewrite step_attempts_exact, map_app, G1, map_map. reflexivity.
    - intros P k t2 n2 S E.
      assert (NDF : NoDup (map d_key F)) by (apply NoDup_map_filter; exact NDd).
      (* where does the entry sit? *)
      assert (Hcase : (exists l', s_glog s = P ++ (k, t2, n2) :: l') \/
                      (exists l, P = s_glog s ++ l /\ map g F = l ++ (k, t2, n2) :: S)).
      { apply app_eq_app in E. destruct E as (l & [[E1 E2]|[E1 E2]]).
        - destruct l as [|a l'].
          + right. exists []. rewrite app_nil_r in E1. cbn in E2. split; [rewrite app_nil_r; auto | cbn; auto].
          + left. exists l'. cbn in E2. inversion E2; subst. exact E1.
        - right. exists l. auto. }
      destruct Hcase as [(l' & E1)|(l & E1 & E2)].
      + exact (G2 P k t2 n2 l' E1).
      + apply map_eq_app in E2. destruct E2 as (F1 & F2 & EF & M1 & M2).
        apply map_eq_cons in M2. destruct M2 as (d & F2' & -> & Ed & _).
        unfold g in Ed. inversion Ed; subst k t2 n2. clear Ed.
        assert (HdF : In d F) by (rewrite EF; apply in_or_app; right; left; reflexivity).
        apply filter_In in HdF. destruct HdF as [Hd Due]. apply due_true in Due. destruct Due as (_ & _ & Itc).
        split; [eapply itc_ban; exact Itc|].
        intros t1 Ht1. subst P. rewrite map_app, last_att_app in Ht1.
        assert (N1 : last_att (map fst l) (d_key d) = None).
        { apply last_att_none. intros t Hin. rewrite <- M1, map_map in Hin. apply in_map_iff in Hin.
          destruct Hin as (x & Ex & Hx). cbn in Ex. inversion Ex.
          rewrite EF, map_app in NDF. cbn [map] in NDF. apply NoDup_remove_2 in NDF.
          apply NDF. apply in_or_app; left. rewrite <- H0. apply in_map; exact Hx. }
        rewrite N1, G1 in Ht1.
        split.
        * apply (backoff_decision d now t1 Itc). rewrite (A d Hd). exact Ht1.
        * apply last_att_some_in in Ht1. destruct (C _ _ Ht1) as (_ & _ & Lt). lia.
  Qed.

  Lemma apply_G s e T :
    SInv s -> LogInv (s_book s) T -> T <= ev_time T e -> GInv s -> GInv (apply_ev s e).
  Proof.
    intros [I _] H L G. destruct e as [now| | | | | ]; [eapply step_G; eassumption| | | | | ];
    (match goal with |- GInv (apply_ev s ?e) =>
       destruct (apply_attempts_nostep s e) as [E1 E2]; [intros now; discriminate|];
       destruct G as [G1 G2]; split; [rewrite E1, E2; exact G1 | rewrite E2; exact G2] end).
  Qed.

  Definition RInv (s : st) (T : N) : Prop := SInv s /\ LogInv (s_book s) T /\ GInv s.

  Lemma RInv_init : RInv s_init 0.
  Proof.
    split; [exact SInv_init | split; [exact LogInv_empty|]]. split; [reflexivity|].
    intros P k t2 n2 S E. destruct P; discriminate.
  Qed.

  Lemma apply_RInv s e T :
    RInv s T -> ev_wf s e -> stale_ok e -> T <= ev_time T e -> RInv (apply_ev s e) (ev_time T e).
  Proof.
    intros (S & H & G) W St L. split; [apply apply_SInv; assumption | split].
    - apply apply_Log; assumption.
    - eapply apply_G; eassumption.
  Qed.

  Theorem run_from_RInv evs : forall s T,
    RInv s T -> wf_run s evs -> Forall stale_ok evs -> mono_from T evs -> exists T', RInv (run_from s evs) T'.
  Proof.
    unfold run_from. induction evs as [|e r IH]; intros s T R W St M; cbn [fold_left]; [exists T; exact R|].
    destruct W as [W1 W2]. destruct M as [M1 M2]. inversion St; subst.
    apply (IH _ (ev_time T e)); [apply apply_RInv; assumption | assumption | assumption | assumption].
  Qed.

  (* the "two consecutive attempts for one key" reading of Spaced *)
  Lemma Spaced_consecutive L : Spaced L ->
    forall L1 k t1 n1 L2 t2 n2 L3,
      L = L1 ++ (k, t1, n1) :: L2 ++ (k, t2, n2) :: L3 ->
      (forall x, In x L2 -> fst (fst x) <> k) ->
      wait_for fw mw n2 <= t2 - t1 /\ t1 <= t2 /\ n2 <= ma.
  Proof.
    intros Sp L1 k t1 n1 L2 t2 n2 L3 E NK.
    destruct (Sp (L1 ++ (k, t1, n1) :: L2) k t2 n2 L3) as [Hn Hw].
    { rewrite E, <- app_assoc. reflexivity. }
    assert (X : last_att (map fst (L1 ++ (k, t1, n1) :: L2)) k = Some t1).
    { rewrite map_app, last_att_app. cbn [map fst last_att].
      assert (N2 : last_att (map fst L2) k = None).
      { apply last_att_none. intros t Hin. apply in_map_iff in Hin. destruct Hin as (x & Ex & Hx).
        apply (NK x Hx). rewrite Ex. reflexivity. }
      rewrite N2. cbn [fst snd]. rewrite key_eqb_refl. reflexivity. }
    destruct (Hw t1 X). auto.
  Qed.

  (* C19_backoff, trace level: along any run with non-decreasing step times, fresh connection identities, and no
     double disconnect of an OUTGOING connection object, two consecutive attempts for one key at t1, t2, where the
     entry had ban score n2 when the second decision was taken, satisfy wait_for n2 <= t2 - t1. *)
  Theorem C19_backoff_trace evs :
    mono_from 0 evs -> wf_run s_init evs -> Forall stale_ok evs ->
    map fst (s_glog (run evs)) = b_attempts (s_book (run evs)) /\
    forall L1 k t1 n1 L2 t2 n2 L3,
      s_glog (run evs) = L1 ++ (k, t1, n1) :: L2 ++ (k, t2, n2) :: L3 ->
      (forall x, In x L2 -> fst (fst x) <> k) ->
      wait_for fw mw n2 <= t2 - t1 /\ t1 <= t2 /\ n2 <= ma.
  Proof.
    intros M W St. destruct (run_from_RInv evs s_init 0 RInv_init W St M) as (T' & _ & _ & G1 & G2).
    split; [exact G1|]. apply Spaced_consecutive. exact G2.
  Qed.

  (* the link between the log and the book that makes the trace statement provable, exported *)
  Theorem C19_log_link evs :
    mono_from 0 evs -> wf_run s_init evs -> Forall stale_ok evs ->
    let b := s_book (run evs) in
    (forall d, In d (b_disc b) -> d_last d = last_att (b_attempts b) (d_key d)) /\
    (forall c, In c (b_conn b) -> c_last c = last_att (b_attempts b) (c_key c)) /\
    (forall k t, In (k, t) (b_attempts b) -> HasKey b k /\ k_dir k = Outgoing) /\
    (forall d, In d (b_disc b) -> k_dir (d_key d) = Outgoing).
  Proof.
    intros M W St. destruct (run_from_RInv evs s_init 0 RInv_init W St M) as (T' & _ & (A & B & C & D) & _).
    repeat split; auto; destruct (C k t H); tauto.
  Qed.

  (* ---------------------------------------------------------------- *)
  (* 5. self-connections                                               *)
  (* ---------------------------------------------------------------- *)
  Lemma find_disc_set_disc l d : find_disc (set_disc l d) (d_key d) = Some d.
  Proof.
    unfold find_disc, set_disc, del_disc. induction l as [|a l IH]; cbn.
    - rewrite key_eqb_refl. reflexivity.
    - destruct (key_eqb (d_key a) (d_key d)) eqn:K; cbn; [exact IH|]. rewrite K. exact IH.
  Qed.

  Lemma hello_self_eq b c p :
    In c (b_conn b) -> k_dir (c_key c) = Outgoing ->
    hello b c p true =
    mkBook (del_conn (hello_upd b c) (c_key c)) (set_disc (b_disc b) (mkD (c_key c) 0 (c_last c)))
           (b_mine b ++ [(k_host (c_key c), k_port (c_key c))]) (b_attempts b).
  Proof.
    intros Hc Dir. rewrite hello_unfold, Dir. unfold peer_disconnected. cbn [b_conn b_disc b_mine b_attempts hello_c' c_key c_hello c_ban c_last].
    destruct (find_conn (hello_upd b c) (c_key c)) eqn:F.
    - rewrite Dir. reflexivity.
    - exfalso. exact (proj1 (find_conn_none _ _) F (hello_c' c) (hello_upd_in b c Hc) eq_refl).
  Qed.

  Lemma due_mine_false b now d :
    In (k_host (d_key d), k_port (d_key d)) (b_mine b) -> due fw mw ma b now d = false.
  Proof.
    intros H. destruct (due fw mw ma b now d) eqn:E; [|reflexivity].
    apply due_true in E. tauto.
  Qed.

  Lemma step_no_attempt_mine b now fresh k t :
    In (k_host k, k_port k) (b_mine b) ->
    In (k, t) (b_attempts (step fw mw ma b now fresh)) -> In (k, t) (b_attempts b).
  Proof.
    intros Hm Hin. rewrite step_attempts_exact in Hin. apply in_app_iff in Hin. destruct Hin as [Hin|Hin]; [exact Hin|].
    exfalso. apply in_map_iff in Hin. destruct Hin as (d & E & Hd). inversion E; subst.
    apply filter_In in Hd. destruct Hd as [_ Due]. rewrite due_mine_false in Due; [discriminate | exact Hm].
  Qed.

  Theorem C19_self b c p :
    In c (b_conn b) -> k_dir (c_key c) = Outgoing ->
    let b' := hello b c p true in
    In (k_host (c_key c), k_port (c_key c)) (b_mine b') /\
    find_conn (b_conn b') (c_key c) = None /\
    find_disc (b_disc b') (c_key c) = Some (mkD (c_key c) 0 (c_last c)) /\
    (forall now d, k_host (d_key d) = k_host (c_key c) -> k_port (d_key d) = k_port (c_key c) ->
                   due fw mw ma b' now d = false) /\
    (forall now fresh t, In (c_key c, t) (b_attempts (step fw mw ma b' now fresh)) -> In (c_key c, t) (b_attempts b')).
  Proof.
    intros Hc Dir b'. unfold b'. rewrite (hello_self_eq b c p Hc Dir). cbn [b_conn b_disc b_mine b_attempts].
    assert (Hm : In (k_host (c_key c), k_port (c_key c)) (b_mine b ++ [(k_host (c_key c), k_port (c_key c))]))
      by (apply in_or_app; right; left; reflexivity).
    split; [exact Hm|]. split; [|split; [|split]].
    - apply find_conn_none. intros x Hx. apply in_del_conn in Hx. tauto.
    - exact (find_disc_set_disc (b_disc b) (mkD (c_key c) 0 (c_last c))).
    - intros now d Eh Ep. apply due_mine_false. cbn [b_mine]. rewrite Eh, Ep. exact Hm.
    - intros now fresh t. apply step_no_attempt_mine. exact Hm.
  Qed.

  (* my_addresses only grows, so such a key is never attempted again in ANY continuation of the run *)
  Lemma apply_mine s e a : In a (b_mine (s_book s)) -> In a (b_mine (s_book (apply_ev s e))).
  Proof.
    intros H. destruct e as [now|k id|id p m|l|id|c]; cbn [apply_ev].
    - cbn [s_book]. unfold step. rewrite step_disc_mine. exact H.
    - cbn [s_book]. rewrite pc_mine. exact H.
    - destruct (find_id _ id) as [c|]; [|exact H]. cbn [s_book]. rewrite hello_unfold.
      destruct (k_dir (c_key c)); [rewrite learn_mine; exact H|].
      destruct m; [rewrite pd_mine; cbn [b_mine]; apply in_or_app; left; exact H | exact H].
    - cbn [s_book]. rewrite peers_mine. exact H.
    - destruct (find_id _ id) as [c|]; [|exact H]. cbn [s_book]. rewrite pd_mine. exact H.
    - cbn [s_book]. rewrite pd_mine. exact H.
  Qed.

  Lemma apply_no_attempt_mine s e k t :
    In (k_host k, k_port k) (b_mine (s_book s)) ->
    In (k, t) (b_attempts (s_book (apply_ev s e))) -> In (k, t) (b_attempts (s_book s)).
  Proof.
    intros Hm. destruct e as [now| | | | | ]; [cbn [apply_ev s_book]; apply step_no_attempt_mine; exact Hm| | | | | ];
    (match goal with |- In _ (b_attempts (s_book (apply_ev s ?e))) -> _ =>
       destruct (apply_attempts_nostep s e) as [E1 _]; [intros now; discriminate|]; rewrite E1; tauto end).
  Qed.

  Theorem C19_self_forever evs : forall s k t,
    In (k_host k, k_port k) (b_mine (s_book s)) ->
    In (k, t) (b_attempts (s_book (run_from s evs))) -> In (k, t) (b_attempts (s_book s)).
  Proof.
    unfold run_from. induction evs as [|e r IH]; intros s k t Hm Hin; cbn [fold_left] in Hin; [exact Hin|].
    apply (apply_no_attempt_mine s e k t Hm). apply (IH (apply_ev s e) k t); [apply apply_mine; exact Hm | exact Hin].
  Qed.
End Run.

(* ------------------------------------------------------------------ *)
(* 6. wait_for with the shipped constants (networking/params.py)       *)
(* ------------------------------------------------------------------ *)
Definition FIRST_WAIT : N := 10.       (* TIME_TO_SECOND_CONNECTION_ATTEMPT *)
Definition MAX_WAIT : N := 1800.       (* MAX_TIME_BETWEEN_CONNECTION_ATTEMPTS *)
Definition MAX_ATTEMPTS : N := 2880.   (* MAX_CONNECTION_ATTEMPTS *)

Lemma wait_for_mono fw mw k1 k2 : k1 <= k2 -> wait_for fw mw k1 <= wait_for fw mw k2.
Proof.
  intros H. unfold wait_for. apply N.min_le_compat_r. apply N.mul_le_mono_l.
  apply N.pow_le_mono_r; [discriminate | exact H].
Qed.

Lemma wait_for_le_max fw mw k : wait_for fw mw k <= mw.
Proof. unfold wait_for. apply N.le_min_r. Qed.

Lemma wait_for_ge_first fw mw k : N.min fw mw <= wait_for fw mw k.
Proof.
  unfold wait_for. apply N.min_le_compat_r.
  assert (1 <= 2 ^ k) by (rewrite <- (N.pow_0_r 2) at 1; apply N.pow_le_mono_r; [discriminate | apply N.le_0_l]).
  nia.
Qed.

Theorem wait_for_shipped :
  (forall k, wait_for FIRST_WAIT MAX_WAIT k = N.min (10 * 2 ^ k) 1800) /\
  (forall k1 k2, k1 <= k2 -> wait_for FIRST_WAIT MAX_WAIT k1 <= wait_for FIRST_WAIT MAX_WAIT k2) /\
  (forall k, 8 <= k -> wait_for FIRST_WAIT MAX_WAIT k = 1800) /\
  (forall k, k < 8 -> wait_for FIRST_WAIT MAX_WAIT k = 10 * 2 ^ k) /\
  map (wait_for FIRST_WAIT MAX_WAIT) [0;1;2;3;4;5;6;7;8] = [10;20;40;80;160;320;640;1280;1800] /\
  MAX_ATTEMPTS = 2880.
Proof.
  split; [reflexivity|]. split; [intros; apply wait_for_mono; assumption|]. split; [|split; [|split; reflexivity]].
  - intros k H. unfold wait_for, FIRST_WAIT, MAX_WAIT. apply N.min_r.
    assert (2 ^ 8 <= 2 ^ k) by (apply N.pow_le_mono_r; [discriminate | exact H]).
    change (2 ^ 8) with 256 in H0. nia.
  - intros k H. unfold wait_for, FIRST_WAIT, MAX_WAIT. apply N.min_l.
    assert (2 ^ k <= 2 ^ 7) by (apply N.pow_le_mono_r; [discriminate | lia]).
    change (2 ^ 7) with 128 in H0. nia.
Qed.

(* ------------------------------------------------------------------ *)
(* 7. the peers file                                                   *)
(* ------------------------------------------------------------------ *)
Theorem C19_file cap db p :
  (length (write_peers cap db p) <= cap)%nat /\
  ((0 < cap)%nat -> hd_error (write_peers cap db p) = Some p) /\
  (NoDup db -> NoDup (write_peers cap db p)) /\
  (forall n, cap = S n -> write_peers cap db p = p :: firstn n (filter (fun k => negb (key_eqb k p)) db)) /\
  (forall k, In k (write_peers cap db p) -> k = p \/ In k db).
Proof.
  unfold write_peers. split; [apply firstn_le_length|]. split; [|split; [|split]].
  - destruct cap; [lia|]. reflexivity.
  - intros ND. apply NoDup_firstn. constructor.
    + intros Hin. apply filter_In in Hin. destruct Hin as [_ H]. rewrite key_eqb_refl in H. discriminate.
    + apply NoDup_filter. exact ND.
  - intros n ->. reflexivity.
  - intros k Hin. assert (Hin' : In k (p :: filter (fun k => negb (key_eqb k p)) db)).
    { rewrite <- (firstn_skipn cap (p :: _)). apply in_or_app; left; exact Hin. }
    destruct Hin' as [->|H]; [left; reflexivity | right]. apply filter_In in H. tauto.
Qed.

(* ------------------------------------------------------------------ *)
(* 8. non-vacuity and refutations (shipped constants)                  *)
(* ------------------------------------------------------------------ *)
Definition ex_kin : pkey := mkKey 1 5000 Incoming.    (* host 1 connecting to us *)
Definition ex_k1 : pkey := mkKey 1 2412 Outgoing.     (* host 1 (it is in fact ourselves) *)
Definition ex_k2 : pkey := mkKey 2 2412 Outgoing.     (* host 2 *)

(* duplicate incoming connect, hello (learn the reverse address), peers announcement, a step attempting both,
   a self-connection detected on the outgoing connection to host 1, host 2 dropping without hello, a double
   disconnect of the replaced incoming object, a step that is too early, and a later step that retries host 2 only *)
Definition ex_evs : list ev :=
  [EAccept ex_kin 100; EAccept ex_kin 101; EHello 101 2412 false; EPeers [(2, 2412)]; EStep 0;
   EHello 102 2412 true; EDisconnect 103; EDisconnectStale (accept_conn ex_kin 100); EStep 5; EStep 25].

Example C19_example_run :
  let s := run FIRST_WAIT MAX_WAIT MAX_ATTEMPTS ex_evs in
  sane (s_book s) = true /\
  b_conn (s_book s) = [mkConn ex_k2 106 false 1 (Some 25)] /\
  b_disc (s_book s) = [mkD ex_k1 0 (Some 0)] /\
  b_mine (s_book s) = [(1, 2412)] /\
  b_attempts (s_book s) = [(ex_k1, 0); (ex_k2, 0); (ex_k2, 25)] /\
  s_glog s = [(ex_k1, 0, 0); (ex_k2, 0, 0); (ex_k2, 25, 1)] /\
  (* intermediate: after the duplicate accept only the newer object is connected *)
  b_conn (s_book (run FIRST_WAIT MAX_WAIT MAX_ATTEMPTS (firstn 2 ex_evs))) = [accept_conn ex_kin 101] /\
  (* intermediate: the too-early step at time 5 attempts nothing *)
  b_attempts (s_book (run FIRST_WAIT MAX_WAIT MAX_ATTEMPTS (firstn 9 ex_evs))) = [(ex_k1, 0); (ex_k2, 0)].
Proof. vm_compute. repeat split. Qed.

Example C19_example_run_wf :
  mono_from 0 ex_evs /\ wf_run FIRST_WAIT MAX_WAIT MAX_ATTEMPTS (s_init) ex_evs /\ Forall stale_ok ex_evs.
Proof.
  split; [vm_compute; repeat split; discriminate|]. split.
  - cbn. repeat split; intros x Hx; cbn in Hx; repeat (destruct Hx as [<-|Hx]; [discriminate|]); contradiction.
  - repeat constructor.
Qed.

(* REFUTATION (model level): the trace-level back-off statement is FALSE if a connection object of an OUTGOING peer
   that was already disconnected is disconnected a second time after the peer has been re-attempted.  The stale
   object (id 0: ban 0, last attempt 0) overwrites the entry of the live connection (last attempt 20), so the next
   step measures the waiting time from 0 instead of 20: attempts at 20 and 21 although wait_for 1 = 20. *)
Definition bad_evs : list ev :=
  [EPeers [(2, 2412)]; EStep 0; EDisconnect 0; EStep 20;
   EDisconnectStale (mkConn ex_k2 0 false 0 (Some 0));     (* exactly the object created at time 0 *)
   EStep 21].

Theorem C19_backoff_trace_refuted :
  mono_from 0 bad_evs /\ wf_run FIRST_WAIT MAX_WAIT MAX_ATTEMPTS s_init bad_evs /\
  let s := run FIRST_WAIT MAX_WAIT MAX_ATTEMPTS bad_evs in
  b_attempts (s_book s) = [(ex_k2, 0); (ex_k2, 20); (ex_k2, 21)] /\
  s_glog s = [(ex_k2, 0, 0); (ex_k2, 20, 1); (ex_k2, 21, 1)] /\
  21 - 20 < wait_for FIRST_WAIT MAX_WAIT 1 /\
  sane (s_book s) = true.
Proof.
  split; [vm_compute; repeat split; discriminate|]. split; [cbn; tauto|].
  vm_compute. repeat split.
Qed.

(* Why connection identities must be unique for the NoDup part of Inv (not for sanity): if two live connection
   objects had the same identity, `hello` (which looks the object up by identity) rewrites both entries. *)
Theorem C19_idclash_nodup_refuted :
  let s := run FIRST_WAIT MAX_WAIT MAX_ATTEMPTS
               [EAccept (mkKey 1 5000 Incoming) 7; EAccept (mkKey 2 5000 Incoming) 7; EHello 7 2412 false] in
  ~ NoDup (map c_key (b_conn (s_book s))) /\ sane (s_book s) = true.
Proof.
  split; [|vm_compute; reflexivity].
  vm_compute. intros H. inversion H as [|x l H1 H2]; subst. apply H1. left; reflexivity.
Qed.

