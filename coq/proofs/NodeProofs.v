(* Node-level properties of model/NodeModel.v: the relay path (C09), the pending pool (C13) and the adoption of a
   mined block (C12).  Stdlib style only. *)
From Coq Require Import NArith List Bool Arith Lia.
From SkV Require Import NodeModel.
Import ListNotations.
Open Scope N_scope.

(* ------------------------------------------------------------------------------------------------------------ *)
(* Definitions that do not depend on the validators                                                            *)

(* the state between deliveries outside bulk download *)
Definition Quiescent (s : nstate) :=
  ns_buffer s = [] /\ ns_valid_blocks s = ns_blocks s /\ ns_valid_head s = ns_head s.

Definition block_ids (s : nstate) : list N := map ab_id (ns_blocks s).

(* deliveries outside bulk download *)
Definition live (e : event) : Prop := match e with EBlock _ _ irt0 => irt0 = true | _ => True end.

(* state-dependent admissibility: a live delivery, and a block found by the miner carries a fresh id *)
Definition ok_event (s : nstate) (e : event) : Prop :=
  match e with
  | EBlock _ _ irt0 => irt0 = true
  | ETx _ _ => True
  | EMined b valid => valid = true -> has_block (ns_blocks s) (ab_id b) = false
  end.

Fixpoint relayed_blocks (o : list out) : list N :=
  match o with
  | [] => []
  | ORelayBlock i :: r => i :: relayed_blocks r
  | ORelayTx _ :: r => relayed_blocks r
  end.

(* ------------------------------------------------------------------------------------------------------------ *)
(* Generic list facts                                                                                          *)

Lemma relayed_blocks_app o1 o2 : relayed_blocks (o1 ++ o2) = relayed_blocks o1 ++ relayed_blocks o2.
Proof.
  induction o1 as [|x o1 IH]; [reflexivity|].
  destruct x; cbn [app relayed_blocks]; rewrite IH; reflexivity.
Qed.

Lemma has_block_In l i : has_block l i = true <-> In i (map ab_id l).
Proof.
  unfold has_block. rewrite existsb_exists. split.
  - intros (b & Hb & E). apply N.eqb_eq in E. subst i. now apply in_map.
  - intros H. apply in_map_iff in H as (b & E & Hb). exists b. split; [assumption|]. now apply N.eqb_eq.
Qed.

Lemma has_block_false_In l i : has_block l i = false <-> ~ In i (map ab_id l).
Proof.
  rewrite <- has_block_In. destruct (has_block l i); split; intro H; try reflexivity; try discriminate.
  exfalso. now apply H.
Qed.

Lemma ns_eta s :
  mkNS (ns_blocks s) (ns_head s) (ns_valid_blocks s) (ns_valid_head s) (ns_pool s) (ns_buffer s) (ns_rows s) = s.
Proof. destruct s; reflexivity. Qed.

Lemma filter_id {A} (f : A -> bool) l : Forall (fun x => f x = true) l -> filter f l = l.
Proof.
  induction 1 as [|x l Hx _ IH]; [reflexivity|]. cbn [filter]. rewrite Hx, IH. reflexivity.
Qed.

Lemma Forall_filter_true {A} (f : A -> bool) l : Forall (fun x => f x = true) (filter f l).
Proof. apply Forall_forall. intros x Hx. apply filter_In in Hx. tauto. Qed.

Lemma FOP_filter {A} (R : A -> A -> Prop) (f : A -> bool) l :
  ForallOrdPairs R l -> ForallOrdPairs R (filter f l).
Proof.
  induction 1 as [|a l Ha _ IH]; cbn [filter]; [constructor|].
  destruct (f a); [|assumption]. constructor; [|assumption].
  apply Forall_forall. intros x Hx. apply filter_In in Hx as [Hx _].
  rewrite Forall_forall in Ha. now apply Ha.
Qed.

Lemma FOP_snoc {A} (R : A -> A -> Prop) l t :
  ForallOrdPairs R l -> Forall (fun a => R a t) l -> ForallOrdPairs R (l ++ [t]).
Proof.
  induction 1 as [|a l Ha _ IH]; intros Ht; cbn [app].
  - constructor; constructor.
  - inversion Ht as [|? ? Hat Ht']; subst. constructor; [|now apply IH].
    apply Forall_app. split; [assumption|]. constructor; [assumption|constructor].
Qed.

Lemma NoDup_snoc {A} (l : list A) x : NoDup l -> ~ In x l -> NoDup (l ++ [x]).
Proof.
  induction 1 as [|a l Ha _ IH]; intros Hx; cbn [app].
  - constructor; [intros []|constructor].
  - constructor.
    + rewrite in_app_iff. intros [H|[H|[]]]; [now apply Ha|]. subst. apply Hx. now left.
    + apply IH. intro H. apply Hx. now right.
Qed.

Lemma NoDup_app_disj {A} (l1 l2 : list A) :
  NoDup l1 -> NoDup l2 -> (forall x, In x l1 -> ~ In x l2) -> NoDup (l1 ++ l2).
Proof.
  induction 1 as [|a l Ha _ IH]; intros H2 Hd; cbn [app]; [assumption|].
  constructor.
  - rewrite in_app_iff. intros [H|H]; [now apply Ha|]. apply (Hd a); [now left|assumption].
  - apply IH; [assumption|]. intros x Hx. apply Hd. now right.
Qed.

Lemma existsb_false_Forall {A} (f : A -> bool) l : existsb f l = false <-> Forall (fun x => f x = false) l.
Proof.
  induction l as [|a l IH]; cbn [existsb].
  - split; [constructor|reflexivity].
  - rewrite orb_false_iff, IH. split.
    + intros [H1 H2]. now constructor.
    + intros H. inversion H; subst. now split.
Qed.

Lemma existsb_eqb_In t l : existsb (N.eqb t) l = true <-> In t l.
Proof.
  rewrite existsb_exists. split.
  - intros (x & Hx & E). apply N.eqb_eq in E. now subst.
  - intros H. exists t. split; [assumption|apply N.eqb_refl].
Qed.

Lemma new_head_cases l h b : new_head l h b = ab_id b \/ (new_head l h b = h /\ ab_prev b <> h).
Proof.
  unfold new_head. destruct (ab_prev b =? h) eqn:E; [now left|].
  apply N.eqb_neq in E. destruct (height_of l h <? ab_height b); [now left|now right].
Qed.

Lemma new_head_extend l h b : ab_prev b = h -> new_head l h b = ab_id b.
Proof. intros E. unfold new_head. apply N.eqb_eq in E. now rewrite E. Qed.

(* ------------------------------------------------------------------------------------------------------------ *)
Section NodeProofs.
  Variable skip : N.
  Variable tx_valid_at : N -> N -> bool.
  Variable tx_conflict : N -> N -> bool.
  Hypothesis conflict_sym : forall a b, tx_conflict a b = tx_conflict b a.

  Notation cleanup := (NodeModel.cleanup tx_valid_at).
  Notation set_state := (NodeModel.set_state tx_valid_at).
  Notation handle_block := (NodeModel.handle_block skip tx_valid_at).
  Notation handle_tx := (NodeModel.handle_tx tx_valid_at tx_conflict).
  Notation handle_mined := (NodeModel.handle_mined tx_valid_at).
  Notation step := (NodeModel.step skip tx_valid_at tx_conflict).
  Notation run := (NodeModel.run skip tx_valid_at tx_conflict).

  (* every pending tx valid at the head; no two share an output *)
  Definition PoolInv (s : nstate) :=
    Forall (fun t => tx_valid_at (ns_head s) t = true) (ns_pool s) /\
    NoDup (ns_pool s) /\
    ForallOrdPairs (fun a b => tx_conflict a b = false) (ns_pool s).

  Fixpoint ok_run (s : nstate) (es : list event) : Prop :=
    match es with
    | [] => True
    | e :: r => ok_event s e /\ ok_run (fst (step s e)) r
    end.

  (* ---------------------------------------------------------------------------------------------------------- *)
  (* Characterisation of handle_block: the five outcomes                                                       *)

  Lemma handle_block_inv s b v irt0 s' o :
    handle_block s b v irt0 = (s', o) ->
    (s' = s /\ o = [] /\
       (has_block (ns_blocks s) (ab_id b) = true \/ has_block (ns_blocks s) (ab_prev b) = false \/
        bv_itself v = false \/ bv_apply v = false))
    \/
    (has_block (ns_blocks s) (ab_id b) = false /\ has_block (ns_blocks s) (ab_prev b) = true /\
     bv_itself v = true /\ bv_apply v = true /\
     ( (* rule violation: rollback to the last validated state *)
       ((irt0 || (ab_height b mod skip =? 0)) = true /\ bv_instate v = false /\ o = [] /\
        s' = mkNS (ns_valid_blocks s) (ns_valid_head s) (ns_valid_blocks s) (ns_valid_head s)
                  (cleanup (ns_valid_head s) (ns_pool s)) [] (ns_rows s))
       \/ (* accepted, validated, flushed *)
       ((irt0 || (ab_height b mod skip =? 0)) = true /\ bv_instate v = true /\
        o = (if (new_head (ns_blocks s) (ns_head s) b =? ab_id b) && irt0 then [ORelayBlock (ab_id b)] else []) /\
        s' = mkNS (ns_blocks s ++ [b]) (new_head (ns_blocks s) (ns_head s) b)
                  (ns_blocks s ++ [b]) (new_head (ns_blocks s) (ns_head s) b)
                  (cleanup (new_head (ns_blocks s) (ns_head s) b) (ns_pool s)) []
                  (ns_rows s ++ (ns_buffer s ++ [ab_id b])))
       \/ (* bulk download, height not a multiple of skip: accepted without in-state validation *)
       ((irt0 || (ab_height b mod skip =? 0)) = false /\ o = [] /\
        s' = mkNS (ns_blocks s ++ [b]) (new_head (ns_blocks s) (ns_head s) b)
                  (ns_valid_blocks s) (ns_valid_head s)
                  (cleanup (new_head (ns_blocks s) (ns_head s) b) (ns_pool s))
                  (ns_buffer s ++ [ab_id b]) (ns_rows s)))).
  Proof.
    unfold NodeModel.handle_block. intros H.
    destruct (has_block (ns_blocks s) (ab_id b)) eqn:E1.
    { injection H as <- <-. left. auto. }
    destruct (has_block (ns_blocks s) (ab_prev b)) eqn:E2; cbn [negb] in H.
    2:{ injection H as <- <-. left. auto. }
    destruct (bv_itself v) eqn:E3; cbn [negb] in H.
    2:{ injection H as <- <-. left. auto 6. }
    destruct (bv_apply v) eqn:E4; cbn [negb] in H.
    2:{ injection H as <- <-. left. auto 6. }
    right. repeat (split; [reflexivity|]).
    cbv zeta in H.
    destruct (irt0 || (ab_height b mod skip =? 0)) eqn:E5.
    - destruct (bv_instate v) eqn:E6; cbn [negb] in H; injection H as <- <-.
      + right. left. repeat (split; [reflexivity|]). reflexivity.
      + left. repeat (split; [reflexivity|]). reflexivity.
    - injection H as <- <-. right. right. repeat (split; [reflexivity|]). reflexivity.
  Qed.

  (* ---------------------------------------------------------------------------------------------------------- *)
  (* Pool invariant helpers                                                                                     *)

  Lemma cleanup_fixed s : PoolInv s -> cleanup (ns_head s) (ns_pool s) = ns_pool s.
  Proof. intros (Hv & _ & _). unfold NodeModel.cleanup. now apply filter_id. Qed.

  Lemma PoolInv_cleanup s s' :
    PoolInv s -> ns_pool s' = cleanup (ns_head s') (ns_pool s) -> PoolInv s'.
  Proof.
    intros (_ & Hnd & Hfop) E. unfold PoolInv. rewrite E. unfold NodeModel.cleanup. split; [|split].
    - apply Forall_filter_true.
    - now apply NoDup_filter.
    - now apply FOP_filter.
  Qed.

  Lemma PoolInv_same s s' : PoolInv s -> ns_pool s' = ns_pool s -> ns_head s' = ns_head s -> PoolInv s'.
  Proof. unfold PoolInv. intros H E1 E2. now rewrite E1, E2. Qed.

  (* ---------------------------------------------------------------------------------------------------------- *)
  (* C09: the relay path                                                                                       *)

  (* 1, general form: without Quiescent the rollback branch re-serves ns_valid_blocks *)
  Theorem relay_only_valid_enter_general s b v irt0 s' o i :
    handle_block s b v irt0 = (s', o) -> In i (block_ids s') ->
    In i (block_ids s) \/ In i (map ab_id (ns_valid_blocks s)) \/
    (i = ab_id b /\ bv_itself v = true /\ bv_apply v = true /\ (irt0 = true -> bv_instate v = true)).
  Proof.
    intros H Hi. apply handle_block_inv in H as [(-> & _ & _) | (_ & _ & E3 & E4 & H)]; [now left|].
    destruct H as [(_ & _ & _ & ->) | [(_ & E6 & _ & ->) | (E5 & _ & ->)]]; unfold block_ids in *; cbn [ns_blocks] in Hi.
    - right. now left.
    - rewrite map_app, in_app_iff in Hi. destruct Hi as [Hi|[<-|[]]]; [now left|]. right. right. auto.
    - rewrite map_app, in_app_iff in Hi. destruct Hi as [Hi|[<-|[]]]; [now left|]. right. right.
      repeat (split; [auto|]). intros ->. discriminate.
  Qed.

  (* 1, as requested; needs Quiescent s (the served blocks after a rollback are ns_valid_blocks s) *)
  Theorem relay_only_valid_enter s b v irt0 s' o i :
    Quiescent s ->
    handle_block s b v irt0 = (s', o) -> In i (block_ids s') ->
    In i (block_ids s) \/
    (i = ab_id b /\ bv_itself v = true /\ bv_apply v = true /\ (irt0 = true -> bv_instate v = true)).
  Proof.
    intros (_ & Q2 & _) H Hi. destruct (relay_only_valid_enter_general _ _ _ _ _ _ _ H Hi) as [H1|[H1|H1]]; auto.
    left. unfold block_ids. now rewrite <- Q2.
  Qed.

  (* a sharper form of the last conjunct: in-state validation was passed whenever it was due *)
  Theorem relay_only_valid_enter_checked s b v irt0 s' o :
    Quiescent s ->
    handle_block s b v irt0 = (s', o) -> ns_blocks s' = ns_blocks s ++ [b] ->
    bv_itself v = true /\ bv_apply v = true /\
    ((irt0 || (ab_height b mod skip =? 0)) = true -> bv_instate v = true).
  Proof.
    intros (_ & Q2 & _) H Hb.
    assert (Hlen : forall l : list ablock, l = l ++ [b] -> False).
    { intros l E. apply (f_equal (@length _)) in E. rewrite app_length in E. cbn in E. lia. }
    apply handle_block_inv in H as [(-> & _ & _) | (_ & _ & E3 & E4 & H)].
    - exfalso. now apply Hlen in Hb.
    - repeat (split; [assumption|]).
      destruct H as [(_ & _ & _ & ->) | [(_ & E6 & _ & ->) | (E5 & _ & ->)]]; cbn [ns_blocks] in Hb.
      + exfalso. rewrite Q2 in Hb. now apply Hlen in Hb.
      + auto.
      + intros E. rewrite E in E5. discriminate.
  Qed.

  (* 2 *)
  Theorem relay_accept s b v s' o :
    Quiescent s -> PoolInv s ->
    has_block (ns_blocks s) (ab_id b) = false -> has_block (ns_blocks s) (ab_prev b) = true ->
    bv_itself v = true -> bv_apply v = true -> bv_instate v = true ->
    handle_block s b v true = (s', o) ->
    ns_blocks s' = ns_blocks s ++ [b] /\ ns_rows s' = ns_rows s ++ [ab_id b] /\ ns_buffer s' = [] /\
    Quiescent s' /\ ns_pool s' = cleanup (ns_head s') (ns_pool s) /\
    (o = [ORelayBlock (ab_id b)] /\ ns_head s' = ab_id b \/
     o = [] /\ ns_head s' = ns_head s /\ ns_head s' <> ab_id b).
  Proof.
    intros (Q1 & Q2 & Q3) _ E1 E2 E3 E4 E6 H.
    apply handle_block_inv in H as [(_ & _ & [F|[F|[F|F]]]) | (_ & _ & _ & _ & H)]; try congruence.
    destruct H as [(_ & F & _) | [(_ & _ & -> & ->) | (F & _)]]; try congruence; [|discriminate].
    cbn [ns_blocks ns_rows ns_buffer ns_pool ns_head]. rewrite Q1. cbn [app].
    repeat (split; [reflexivity|]).
    split; [repeat split|]. split; [reflexivity|].
    rewrite andb_true_r.
    destruct (new_head (ns_blocks s) (ns_head s) b =? ab_id b) eqn:E.
    - left. apply N.eqb_eq in E. auto.
    - right. apply N.eqb_neq in E. split; [reflexivity|].
      destruct (new_head_cases (ns_blocks s) (ns_head s) b) as [F|[F _]]; [contradiction|]. auto.
  Qed.

  (* 3 *)
  Theorem relay_duplicate_noop s b v irt0 :
    has_block (ns_blocks s) (ab_id b) = true -> handle_block s b v irt0 = (s, []).
  Proof. intros E. unfold NodeModel.handle_block. now rewrite E. Qed.

  (* 4 *)
  Theorem relay_reject_no_trace s b v :
    Quiescent s -> PoolInv s ->
    (has_block (ns_blocks s) (ab_prev b) = false \/ bv_itself v = false \/ bv_apply v = false \/
     bv_instate v = false) ->
    has_block (ns_blocks s) (ab_id b) = false ->
    handle_block s b v true = (s, []).
  Proof.
    intros (Q1 & Q2 & Q3) HP Hrej _.
    destruct (handle_block s b v true) as [s' o] eqn:H.
    apply handle_block_inv in H as [(-> & -> & _) | (_ & E2 & E3 & E4 & H)]; [reflexivity|].
    destruct H as [(_ & _ & -> & ->) | [(_ & E6 & _) | (F & _)]].
    - pose proof (cleanup_fixed _ HP) as C. destruct s as [bl h vb vh p bf rw].
      cbn [ns_blocks ns_head ns_valid_blocks ns_valid_head ns_pool ns_buffer ns_rows] in *.
      subst bf vb vh. rewrite C. reflexivity.
    - destruct Hrej as [F|[F|[F|F]]]; congruence.
    - discriminate.
  Qed.

  (* ---------------------------------------------------------------------------------------------------------- *)
  (* C13: the pending pool                                                                                      *)

  (* every way handle_tx can end *)
  Lemma handle_tx_inv s t ok s' o :
    handle_tx s t ok = (s', o) ->
    (s' = s /\ o = []) \/
    (~ In t (ns_pool s) /\ ok = true /\ tx_valid_at (ns_head s) t = true /\
     Forall (fun x => tx_conflict t x = false) (ns_pool s) /\ o = [ORelayTx t] /\
     s' = mkNS (ns_blocks s) (ns_head s) (ns_valid_blocks s) (ns_valid_head s) (ns_pool s ++ [t])
               (ns_buffer s) (ns_rows s)).
  Proof.
    unfold NodeModel.handle_tx, NodeModel.admits. intros H.
    destruct (existsb (N.eqb t) (ns_pool s)) eqn:E0; [injection H as <- <-; now left|].
    destruct ok; cbn [andb] in H; [|injection H as <- <-; now left].
    destruct (tx_valid_at (ns_head s) t); cbn [andb] in H; [|injection H as <- <-; now left].
    destruct (existsb (tx_conflict t) (ns_pool s)) eqn:E; cbn [negb] in H; injection H as <- <-; [now left|].
    right. split.
    - intro Hin. apply existsb_eqb_In in Hin. congruence.
    - repeat (split; [reflexivity|]). split; [now apply existsb_false_Forall|]. split; reflexivity.
  Qed.

  (* 8 *)
  Theorem pool_admission s t ok s' o :
    handle_tx s t ok = (s', o) -> In t (ns_pool s') -> ~ In t (ns_pool s) ->
    ok = true /\ tx_valid_at (ns_head s) t = true /\
    Forall (fun x => tx_conflict t x = false) (ns_pool s) /\ o = [ORelayTx t].
  Proof.
    intros H Hin Hnin. apply handle_tx_inv in H as [(-> & _) | (_ & H1 & H2 & H3 & H4 & _)]; [contradiction|].
    auto.
  Qed.

  Theorem tx_relay_only_on_admission s t ok s' o :
    handle_tx s t ok = (s', o) -> o <> [] ->
    ~ In t (ns_pool s) /\ ns_pool s' = ns_pool s ++ [t] /\ o = [ORelayTx t].
  Proof.
    intros H Ho. apply handle_tx_inv in H as [(_ & ->) | (Hn & _ & _ & _ & -> & ->)]; [contradiction|].
    cbn [ns_pool]. auto.
  Qed.

  Lemma handle_tx_pool_inv s t ok s' o : PoolInv s -> handle_tx s t ok = (s', o) -> PoolInv s'.
  Proof.
    intros HP H. apply handle_tx_inv in H as [(-> & _) | (Hn & _ & Hv & Hc & _ & ->)]; [assumption|].
    destruct HP as (P1 & P2 & P3). unfold PoolInv. cbn [ns_pool ns_head]. split; [|split].
    - apply Forall_app. split; [assumption|]. constructor; [assumption|constructor].
    - now apply NoDup_snoc.
    - apply FOP_snoc; [assumption|]. eapply Forall_impl; [|exact Hc].
      cbn beta. intros a Ha. now rewrite conflict_sym.
  Qed.

  Lemma handle_block_pool_inv s b v irt0 s' o : PoolInv s -> handle_block s b v irt0 = (s', o) -> PoolInv s'.
  Proof.
    intros HP H. apply handle_block_inv in H as [(-> & _ & _) | (_ & _ & _ & _ & H)]; [assumption|].
    destruct H as [(_ & _ & _ & ->) | [(_ & _ & _ & ->) | (_ & _ & ->)]];
      (eapply PoolInv_cleanup; [exact HP|reflexivity]).
  Qed.

  Lemma handle_mined_pool_inv s b valid s' o : PoolInv s -> handle_mined s b valid = (s', o) -> PoolInv s'.
  Proof.
    intros HP H. unfold NodeModel.handle_mined in H. destruct valid; cbn [negb] in H; injection H as <- <-.
    - eapply PoolInv_cleanup; [exact HP|reflexivity].
    - assumption.
  Qed.

  (* 7, strong form: no side condition on the state or the event is needed *)
  Theorem pool_inv_step_strong s e s' o : PoolInv s -> step s e = (s', o) -> PoolInv s'.
  Proof.
    intros HP H. destruct e as [b v irt0|t ok|b valid]; cbn [NodeModel.step] in H.
    - eapply handle_block_pool_inv; eassumption.
    - eapply handle_tx_pool_inv; eassumption.
    - eapply handle_mined_pool_inv; eassumption.
  Qed.

  (* 7, as requested *)
  Theorem pool_inv_step s e s' o : PoolInv s -> Quiescent s -> ok_event s e -> step s e = (s', o) -> PoolInv s'.
  Proof. intros HP _ _ H. eapply pool_inv_step_strong; eassumption. Qed.

  (* 9 *)
  Theorem pool_eviction_exact s b v s' o :
    Quiescent s -> PoolInv s ->
    has_block (ns_blocks s) (ab_id b) = false -> has_block (ns_blocks s) (ab_prev b) = true ->
    bv_itself v = true -> bv_apply v = true -> bv_instate v = true ->
    handle_block s b v true = (s', o) ->
    ns_pool s' = filter (tx_valid_at (ns_head s')) (ns_pool s) /\
    (forall t, In t (ns_pool s') <-> In t (ns_pool s) /\ tx_valid_at (ns_head s') t = true).
  Proof.
    intros Q HP E1 E2 E3 E4 E6 H.
    destruct (relay_accept _ _ _ _ _ Q HP E1 E2 E3 E4 E6 H) as (_ & _ & _ & _ & Hp & _).
    unfold NodeModel.cleanup in Hp. split; [assumption|]. intros t. rewrite Hp. apply filter_In.
  Qed.

  Theorem pool_unchanged_on_reject s b v s' o :
    Quiescent s -> PoolInv s ->
    (has_block (ns_blocks s) (ab_id b) = true \/ has_block (ns_blocks s) (ab_prev b) = false \/
     bv_itself v = false \/ bv_apply v = false \/ bv_instate v = false) ->
    handle_block s b v true = (s', o) -> ns_pool s' = ns_pool s.
  Proof.
    intros Q HP Hrej H. destruct (has_block (ns_blocks s) (ab_id b)) eqn:E1.
    - rewrite relay_duplicate_noop in H by assumption. now injection H as <- _.
    - rewrite relay_reject_no_trace in H; try assumption.
      + now injection H as <- _.
      + destruct Hrej as [F|Hrej]; [discriminate|assumption].
  Qed.

  (* ---------------------------------------------------------------------------------------------------------- *)
  (* C12: adoption of a mined block                                                                             *)

  Theorem mined_invalid_noop s b : handle_mined s b false = (s, []).
  Proof. reflexivity. Qed.

  (* 10, strong form: neither Quiescent s nor freshness of the id is needed for these conclusions, except that
     Quiescent s' only needs the definition (the handler empties the buffer and sets the validated state) *)
  Theorem mined_adopted_strong s b s' o :
    handle_mined s b true = (s', o) ->
    ns_blocks s' = ns_blocks s ++ [b] /\ ns_rows s' = ns_rows s ++ ns_buffer s ++ [ab_id b] /\
    o = [ORelayBlock (ab_id b)] /\ Quiescent s' /\
    ns_head s' = new_head (ns_blocks s) (ns_head s) b /\
    ns_pool s' = cleanup (ns_head s') (ns_pool s).
  Proof.
    unfold NodeModel.handle_mined. cbn [negb]. intros H. injection H as <- <-.
    cbn. repeat split; reflexivity.
  Qed.

  (* 10, as requested *)
  Theorem mined_adopted s b s' o :
    Quiescent s -> has_block (ns_blocks s) (ab_id b) = false ->
    handle_mined s b true = (s', o) ->
    In (ab_id b) (block_ids s') /\ In (ab_id b) (ns_rows s') /\ o = [ORelayBlock (ab_id b)] /\ Quiescent s' /\
    (ab_prev b = ns_head s -> ns_head s' = ab_id b).
  Proof.
    intros _ _ H. apply mined_adopted_strong in H as (Hb & Hr & Ho & Q & Hh & _).
    unfold block_ids. rewrite Hb, Hr, map_app, !in_app_iff. cbn [map In].
    split; [right; now left|]. split; [right; right; now left|].
    split; [assumption|]. split; [assumption|].
    intros E. rewrite Hh. now apply new_head_extend.
  Qed.

  (* ---------------------------------------------------------------------------------------------------------- *)
  (* 6: Quiescent is preserved by ok events; 5: relay at most once                                              *)

  Theorem quiescent_step s e s' o : Quiescent s -> ok_event s e -> step s e = (s', o) -> Quiescent s'.
  Proof.
    intros Q Hok H. destruct e as [b v irt0|t ok|b valid]; cbn [NodeModel.step ok_event] in *.
    - subst irt0. apply handle_block_inv in H as [(-> & _ & _) | (_ & _ & _ & _ & H)]; [assumption|].
      destruct Q as (Q1 & Q2 & Q3).
      destruct H as [(_ & _ & _ & ->) | [(_ & _ & _ & ->) | (F & _)]]; [| |discriminate];
        unfold Quiescent; cbn; auto.
    - apply handle_tx_inv in H as [(-> & _) | (_ & _ & _ & _ & _ & ->)]; [assumption|]. exact Q.
    - destruct valid; [|injection H as <- _; assumption].
      now apply mined_adopted_strong in H as (_ & _ & _ & Q' & _).
  Qed.

  Theorem invariants_step s e s' o :
    Quiescent s -> PoolInv s -> ok_event s e -> step s e = (s', o) -> Quiescent s' /\ PoolInv s'.
  Proof.
    intros Q HP Hok H. split; [eapply quiescent_step; eassumption|eapply pool_inv_step_strong; eassumption].
  Qed.

  (* what one ok step does to the served ids and what it relays *)
  Lemma step_relay s e s' o :
    Quiescent s -> ok_event s e -> step s e = (s', o) ->
    (block_ids s' = block_ids s /\ relayed_blocks o = []) \/
    (exists i, block_ids s' = block_ids s ++ [i] /\ ~ In i (block_ids s) /\
               (relayed_blocks o = [] \/ relayed_blocks o = [i])).
  Proof.
    intros Q Hok H. destruct e as [b v irt0|t ok|b valid]; cbn [NodeModel.step ok_event] in *.
    - subst irt0. apply handle_block_inv in H as [(-> & -> & _) | (E1 & _ & _ & _ & H)]; [now left|].
      destruct Q as (Q1 & Q2 & Q3).
      destruct H as [(_ & _ & -> & ->) | [(_ & _ & -> & ->) | (F & _)]]; [| |discriminate].
      + left. unfold block_ids. cbn [ns_blocks]. now rewrite Q2.
      + right. exists (ab_id b). unfold block_ids. cbn [ns_blocks]. rewrite map_app. cbn [map].
        split; [reflexivity|]. split; [now apply has_block_false_In|].
        destruct (_ && _); [now right|now left].
    - left. apply handle_tx_inv in H as [(-> & ->) | (_ & _ & _ & _ & -> & ->)]; split; reflexivity.
    - destruct valid; [|injection H as <- <-; now left].
      specialize (Hok eq_refl). apply mined_adopted_strong in H as (Hb & _ & -> & _).
      right. exists (ab_id b). unfold block_ids. rewrite Hb, map_app. cbn [map].
      split; [reflexivity|]. split; [now apply has_block_false_In|now right].
  Qed.

  Lemma run_relay_inv es : forall s0 s o,
    Quiescent s0 -> NoDup (block_ids s0) -> ok_run s0 es -> run s0 es = (s, o) ->
    Quiescent s /\ NoDup (block_ids s) /\ incl (block_ids s0) (block_ids s) /\
    NoDup (relayed_blocks o) /\
    (forall i, In i (relayed_blocks o) -> ~ In i (block_ids s0) /\ In i (block_ids s)).
  Proof.
    induction es as [|e r IH]; intros s0 s o Q ND Hok H.
    - cbn in H. injection H as <- <-. cbn [relayed_blocks].
      repeat (split; [assumption|]). split; [apply incl_refl|]. split; [constructor|]. intros i [].
    - cbn [NodeModel.run] in H. cbn [ok_run] in Hok. destruct Hok as [Hok1 Hok2].
      destruct (step s0 e) as [s1 o1] eqn:Hs. cbn [fst] in Hok2.
      destruct (run s1 r) as [s2 o2] eqn:Hr. injection H as <- <-.
      pose proof (quiescent_step _ _ _ _ Q Hok1 Hs) as Q1.
      pose proof (step_relay _ _ _ _ Q Hok1 Hs) as Hstep.
      assert (ND1 : NoDup (block_ids s1)).
      { destruct Hstep as [(E & _) | (i & E & Hi & _)]; rewrite E; [assumption|now apply NoDup_snoc]. }
      assert (Hinc1 : incl (block_ids s0) (block_ids s1)).
      { destruct Hstep as [(E & _) | (i & E & _ & _)]; rewrite E; [apply incl_refl|now apply incl_appl]. }
      destruct (IH _ _ _ Q1 ND1 Hok2 Hr) as (Q2 & ND2 & Hinc2 & NDr & Hr2).
      repeat (split; [assumption|]).
      split; [eapply incl_tran; eassumption|].
      rewrite relayed_blocks_app.
      assert (Ho1 : forall i, In i (relayed_blocks o1) -> ~ In i (block_ids s0) /\ In i (block_ids s1)).
      { intros i Hi. destruct Hstep as [(_ & E) | (j & E & Hj & [E'|E'])]; rewrite ?E, ?E' in Hi; try contradiction.
        destruct Hi as [<-|[]]. split; [assumption|]. rewrite E, in_app_iff. right. now left. }
      split.
      + apply NoDup_app_disj; [|assumption|].
        * destruct Hstep as [(_ & E) | (j & _ & _ & [E|E])]; rewrite E; constructor; [intros []|constructor].
        * intros i Hi1 Hi2. apply Ho1 in Hi1 as [_ Hi1]. apply Hr2 in Hi2 as [Hi2 _]. contradiction.
      + intros i Hi. apply in_app_iff in Hi as [Hi|Hi].
        * apply Ho1 in Hi as [Ha Hb]. split; [assumption|]. now apply Hinc2.
        * apply Hr2 in Hi as [Ha Hb]. split; [|assumption]. intro F. apply Ha. now apply Hinc1.
  Qed.

  (* 6, for whole runs *)
  Theorem invariants_run s0 es s o :
    Quiescent s0 -> PoolInv s0 -> ok_run s0 es -> run s0 es = (s, o) -> Quiescent s /\ PoolInv s.
  Proof.
    revert s0 s o. induction es as [|e r IH]; intros s0 s o Q HP Hok H.
    - cbn in H. injection H as <- <-. auto.
    - cbn [NodeModel.run] in H. cbn [ok_run] in Hok. destruct Hok as [Hok1 Hok2].
      destruct (step s0 e) as [s1 o1] eqn:Hs. cbn [fst] in Hok2.
      destruct (run s1 r) as [s2 o2] eqn:Hr. injection H as <- <-.
      destruct (invariants_step _ _ _ _ Q HP Hok1 Hs) as [Q1 HP1]. eapply IH; eassumption.
  Qed.

  (* 5, strong form: the pool plays no role (no PoolInv, no conflict_sym) *)
  Theorem relay_at_most_once_strong s0 es s o :
    Quiescent s0 -> NoDup (block_ids s0) -> ok_run s0 es -> run s0 es = (s, o) ->
    (forall i, (count_occ N.eq_dec (relayed_blocks o) i <= 1)%nat) /\
    (forall i, In i (relayed_blocks o) -> ~ In i (block_ids s0) /\ In i (block_ids s)) /\
    Quiescent s /\ NoDup (block_ids s) /\ incl (block_ids s0) (block_ids s).
  Proof.
    intros Q ND Hok H.
    destruct (run_relay_inv _ _ _ _ Q ND Hok H) as (Q' & ND' & Hinc & NDr & Hr).
    split; [now apply NoDup_count_occ|]. auto.
  Qed.

  (* 5, as requested, with the whole invariant at the end of the run *)
  Theorem relay_at_most_once s0 es s o :
    Quiescent s0 -> PoolInv s0 -> NoDup (block_ids s0) -> ok_run s0 es -> run s0 es = (s, o) ->
    (forall i, (count_occ N.eq_dec (relayed_blocks o) i <= 1)%nat) /\
    (forall i, In i (relayed_blocks o) -> ~ In i (block_ids s0) /\ In i (block_ids s)) /\
    Quiescent s /\ PoolInv s /\ NoDup (block_ids s) /\ incl (block_ids s0) (block_ids s).
  Proof.
    intros Q HP ND Hok H.
    destruct (relay_at_most_once_strong _ _ _ _ Q ND Hok H) as (H1 & H2 & H3 & H4 & H5).
    destruct (invariants_run _ _ _ _ Q HP Hok H) as [_ HP']. auto 10.
  Qed.

  (* Forall live suffices when the run contains no successfully mined block *)
  Lemma ok_run_of_live es : forall s0,
    Forall live es -> (forall b, ~ In (EMined b true) es) -> ok_run s0 es.
  Proof.
    induction es as [|e r IH]; intros s0 Hl Hm; cbn [ok_run]; [exact I|].
    inversion Hl as [|? ? Hl1 Hl2]; subst. split.
    - destruct e as [b v irt0|t ok|b valid]; cbn [ok_event live] in *; auto.
      intros ->. exfalso. apply (Hm b). now left.
    - apply IH; [assumption|]. intros b Hb. apply (Hm b). now right.
  Qed.

  Corollary relay_at_most_once_live s0 es s o :
    Quiescent s0 -> NoDup (block_ids s0) ->
    Forall live es -> (forall b, ~ In (EMined b true) es) -> run s0 es = (s, o) ->
    forall i, (count_occ N.eq_dec (relayed_blocks o) i <= 1)%nat.
  Proof.
    intros Q ND Hl Hm H. eapply relay_at_most_once_strong; try eassumption. now apply ok_run_of_live.
  Qed.

End NodeProofs.

(* ------------------------------------------------------------------------------------------------------------ *)
(* Non-vacuity                                                                                                  *)

Definition ex_valid (h t : N) : bool := N.even (h + t).
Definition ex_conflict (a b : N) : bool := false.
Definition ex_s0 : nstate := mkNS [mkAB 0 0 0] 0 [mkAB 0 0 0] 0 [] [] [0].
Definition ex_b1 : ablock := mkAB 1 0 1.
Definition ex_ok : bverdict := mkBV true true true.

Example ex_s0_ok : Quiescent ex_s0 /\ PoolInv ex_valid ex_conflict ex_s0 /\ NoDup (block_ids ex_s0).
Proof.
  split; [repeat split|]. split.
  - repeat split; constructor.
  - cbn. constructor; [intros []|constructor].
Qed.

(* a block accepted and relayed once, the duplicate ignored, a transaction admitted and relayed *)
Example ex_run :
  run 10 ex_valid ex_conflict ex_s0 [EBlock ex_b1 ex_ok true; EBlock ex_b1 ex_ok true; ETx 3 true]
  = (mkNS [mkAB 0 0 0; ex_b1] 1 [mkAB 0 0 0; ex_b1] 1 [3] [] [0; 1], [ORelayBlock 1; ORelayTx 3]).
Proof. vm_compute. reflexivity. Qed.

Example ex_run_ok :
  ok_run 10 ex_valid ex_conflict ex_s0 [EBlock ex_b1 ex_ok true; EBlock ex_b1 ex_ok true; ETx 3 true].
Proof. cbn. auto. Qed.

(* eviction: tx 2 is valid at head 0, the new head 1 makes it invalid; a rule-violating block leaves no trace;
   a conflicting-free second tx 5 valid at head 1 is admitted afterwards *)
Example ex_run_evict :
  run 10 ex_valid ex_conflict ex_s0
      [ETx 2 true; EBlock (mkAB 7 0 1) (mkBV true true false) true; EBlock ex_b1 ex_ok true; ETx 5 true; ETx 5 true]
  = (mkNS [mkAB 0 0 0; ex_b1] 1 [mkAB 0 0 0; ex_b1] 1 [5] [] [0; 1], [ORelayTx 2; ORelayBlock 1; ORelayTx 5]).
Proof. vm_compute. reflexivity. Qed.

(* a block on a side branch that does not become the head is stored but not relayed *)
Example ex_fork_not_relayed :
  run 10 ex_valid ex_conflict ex_s0 [EBlock ex_b1 ex_ok true; EBlock (mkAB 2 0 1) ex_ok true]
  = (mkNS [mkAB 0 0 0; ex_b1; mkAB 2 0 1] 1 [mkAB 0 0 0; ex_b1; mkAB 2 0 1] 1 [] [] [0; 1; 2], [ORelayBlock 1]).
Proof. vm_compute. reflexivity. Qed.

(* Forall live alone is not enough for "at most once": the miner's handler does not dedupe *)
Theorem relay_at_most_once_live_only_refuted :
  exists es s o, Forall live es /\ run 10 ex_valid ex_conflict ex_s0 es = (s, o) /\
                 count_occ N.eq_dec (relayed_blocks o) 1 = 2%nat.
Proof.
  exists [EMined ex_b1 true; EMined ex_b1 true]. eexists. eexists.
  split; [repeat constructor|]. split; [vm_compute; reflexivity|]. vm_compute. reflexivity.
Qed.

(* without Quiescent, statement 1 in its short form fails: a rollback re-serves ns_valid_blocks *)
Theorem relay_only_valid_enter_without_quiescent_refuted :
  exists s b v s' o i,
    handle_block 10 ex_valid s b v true = (s', o) /\ In i (block_ids s') /\
    ~ (In i (block_ids s) \/
       (i = ab_id b /\ bv_itself v = true /\ bv_apply v = true /\ (true = true -> bv_instate v = true))).
Proof.
  exists (mkNS [mkAB 0 0 0] 0 [mkAB 0 0 0; mkAB 9 0 1] 9 [] [] [0]), ex_b1, (mkBV true true false).
  eexists. eexists. exists 9.
  split; [vm_compute; reflexivity|]. split; [cbn; auto|].
  intros [[F|[]]|(F & _)]; discriminate.
Qed.

(* ------------------------------------------------------------------------------------------------------------ *)
