(* Proofs about the VLQ codec (serialization.py): round trip, canonicity of the strict decoder, and the
   refutation of canonicity for the lenient decoder that shipped before the fix. *)
From Coq Require Import NArith List Lia ZArith Bool.
From Coq Require Import ZifyBool ZifyN ZifyNat.
From SkV Require Import Bytes Vlq.
Import ListNotations.
Open Scope N_scope.
Ltac Zify.zify_post_hook ::= Z.to_euclidean_division_equations.

(* ---------- generic digit lemmas ---------- *)
Lemma digits_length f i l : length (digits f i l) = f.
Proof. revert i l; induction f as [|f IH]; intros i l; cbn [digits]; [reflexivity|].
  rewrite app_length, IH; simpl; lia. Qed.

Lemma digits_wf f i l : bytes_wf (digits f i l).
Proof. revert i l; induction f as [|f IH]; intros i l; cbn [digits]; [constructor|].
  apply Forall_app; split; [apply IH|]. constructor; [|constructor]. destruct l; lia. Qed.

(* decoding the non-last digits of i (all with continuation bit) followed by anything *)
Lemma dec_digits_false f i acc tl :
  vlq_dec_aux acc (digits f i false ++ tl) =
  vlq_dec_aux ((acc * 128 ^ N.of_nat f) + (i mod 128 ^ N.of_nat f) * 128) tl.
Proof.
  revert i acc tl; induction f as [|f IH]; intros i acc tl.
  - cbn [digits app]. replace (N.of_nat 0) with 0 by reflexivity. rewrite N.pow_0_r.
    f_equal. rewrite N.mod_1_r. lia.
  - cbn [digits]. rewrite <- app_assoc. rewrite IH. cbn [app vlq_dec_aux].
    assert (Hlt : (i mod 128 + 128 <? 128) = false) by lia. rewrite Hlt.
    f_equal. rewrite Nat2N.inj_succ, N.pow_succ_r'.
    assert (Hm : (i mod 128 + 128) mod 128 = i mod 128).
    { rewrite <- N.add_mod_idemp_r by lia. rewrite N.mod_same by lia. rewrite N.add_0_r. apply N.mod_mod; lia. }
    rewrite Hm.
    assert (Hk : i mod (128 * 128 ^ N.of_nat f) = i mod 128 + 128 * ((i / 128) mod 128 ^ N.of_nat f)).
    { rewrite N.mod_mul_r by (try lia; apply N.pow_nonzero; lia). reflexivity. }
    rewrite Hk. lia.
Qed.

Lemma dec_digits_true f i tl : (0 < f)%nat ->
  vlq_dec_aux 0 (digits f i true ++ tl) = Some (i mod 128 ^ N.of_nat f, tl).
Proof.
  intros Hf. destruct f as [|f]; [lia|]. cbn [digits]. rewrite <- app_assoc, dec_digits_false.
  cbn [app vlq_dec_aux].
  assert (Hlt : (i mod 128 + 0 <? 128) = true) by lia. rewrite Hlt. f_equal. f_equal.
  rewrite Nat2N.inj_succ, N.pow_succ_r'.
  rewrite (N.mod_mul_r i 128) by (try lia; apply N.pow_nonzero; lia).
  rewrite N.add_0_r, N.mod_mod by lia. lia.
Qed.

Lemma size_bound i : i < 2 ^ N.size i.
Proof. destruct i as [|p]; [reflexivity|]. apply N.size_gt. Qed.

Lemma needed_enough i : i < 128 ^ N.of_nat (needed i).
Proof.
  unfold needed. rewrite N2Nat.id.
  replace 128 with (2 ^ 7) by reflexivity. rewrite <- N.pow_mul_r.
  eapply N.lt_le_trans; [apply size_bound|]. apply N.pow_le_mono_r; lia.
Qed.

Theorem vlq_roundtrip_lenient i rest : vlq_dec_lenient (vlq_enc i ++ rest) = Some (i, rest).
Proof.
  unfold vlq_dec_lenient, vlq_enc. rewrite dec_digits_true by (unfold needed; lia).
  rewrite N.mod_small by apply needed_enough. reflexivity.
Qed.

Theorem vlq_roundtrip i rest : vlq_dec (vlq_enc i ++ rest) = Some (i, rest).
Proof.
  unfold vlq_dec. rewrite vlq_roundtrip_lenient. rewrite app_length. unfold vlq_enc at 1. rewrite digits_length.
  replace (needed i + length rest - length rest)%nat with (needed i) by lia. rewrite Nat.eqb_refl. reflexivity.
Qed.

Theorem vlq_enc_wf i : bytes_wf (vlq_enc i).  Proof. apply digits_wf. Qed.

(* the lenient decoder is NOT canonical: the finding, as a theorem about the faithful model *)
Theorem vlq_canonical_refuted :
  exists bs v rest, bytes_wf bs /\ vlq_dec_lenient bs = Some (v, rest) /\ vlq_enc v ++ rest <> bs.
Proof. exists [128;0], 0, []. split; [repeat constructor; lia|]. split; [reflexivity|]. vm_compute. discriminate. Qed.
Theorem vlq_canonical_refuted_short :
  exists bs v rest, bytes_wf bs /\ vlq_dec_lenient bs = Some (v, rest) /\ vlq_enc v ++ rest <> bs.
Proof. exists [126], 126, []. split; [repeat constructor; lia|]. split; [reflexivity|]. vm_compute. discriminate. Qed.


Lemma pow128_pos n : 0 < 128 ^ n.  Proof. apply N.neq_0_lt_0, N.pow_nonzero; lia. Qed.

Lemma digits_cons n d w l : (0 < n)%nat -> w < 128 ^ N.of_nat n -> d < 128 ->
  digits (S n) (d * 128 ^ N.of_nat n + w) l = (d + 128) :: digits n w l.
Proof.
  revert w l; induction n as [|m IH]; intros w l Hn Hw Hd; [lia|].
  destruct m as [|m'].
  - (* n = 1 *) cbn [digits app]. change (N.of_nat 1) with 1 in *. rewrite N.pow_1_r in *.
    assert (H1 : (d * 128 + w) / 128 = d) by lia.
    assert (H2 : (d * 128 + w) mod 128 = w) by lia.
    rewrite H1, H2. rewrite (N.mod_small d) by lia. rewrite (N.mod_small w) by lia. reflexivity.
  - set (n := S m') in *.
    change (digits (S (S n)) (d * 128 ^ N.of_nat (S n) + w) l)
      with (digits (S n) ((d * 128 ^ N.of_nat (S n) + w) / 128) false
              ++ [ (d * 128 ^ N.of_nat (S n) + w) mod 128 + (if l then 0 else 128) ]).
    rewrite Nat2N.inj_succ, N.pow_succ_r' in *.
    pose proof (pow128_pos (N.of_nat n)) as Hp.
    assert (H1 : (d * (128 * 128 ^ N.of_nat n) + w) / 128 = d * 128 ^ N.of_nat n + w / 128).
    { replace (d * (128 * 128 ^ N.of_nat n) + w) with (w + (d * 128 ^ N.of_nat n) * 128) by lia.
      rewrite N.div_add by lia. lia. }
    assert (H2 : (d * (128 * 128 ^ N.of_nat n) + w) mod 128 = w mod 128).
    { replace (d * (128 * 128 ^ N.of_nat n) + w) with (w + (d * 128 ^ N.of_nat n) * 128) by lia.
      rewrite N.mod_add by lia. reflexivity. }
    rewrite H1, H2. rewrite IH; [| lia | | exact Hd].
    + reflexivity.
    + apply N.div_lt_upper_bound; lia.
Qed.

Lemma dec_aux_canon bs : forall acc v rest, bytes_wf bs -> vlq_dec_aux acc bs = Some (v, rest) ->
  let n := (length bs - length rest)%nat in
  (0 < n)%nat /\ (length rest <= length bs)%nat /\
  exists w, w < 128 ^ N.of_nat n /\ v = acc * 128 ^ N.of_nat (n - 1) + w /\ bs = digits n w true ++ rest.
Proof.
  induction bs as [|b bs IH]; intros acc v rest Hwf Hdec; [discriminate|].
  cbn [vlq_dec_aux] in Hdec. inversion Hwf as [|? ? Hb Hwf']; subst.
  destruct (b <? 128) eqn:Hlt.
  - inversion Hdec; subst. cbn [length].
    replace (S (length rest) - length rest)%nat with 1%nat by lia.
    split; [lia|]. split; [lia|]. exists b. split; [cbn; lia|]. split.
    + cbn. rewrite N.mod_small by lia. lia.
    + cbn [digits app]. f_equal. rewrite N.mod_small by lia. lia.
  - specialize (IH _ _ _ Hwf' Hdec). cbn zeta in IH. destruct IH as (Hn & Hle & w & Hw & Hv & Hbs).
    cbn [length]. remember (length bs - length rest)%nat as n eqn:En.
    replace (S (length bs) - length rest)%nat with (S n) by lia.
    split; [lia|]. split; [lia|].
    pose proof (pow128_pos (N.of_nat n)) as Hp.
    assert (Hd : b mod 128 < 128) by lia.
    exists ((b mod 128) * 128 ^ N.of_nat n + w). split; [|split].
    + rewrite Nat2N.inj_succ, N.pow_succ_r'. nia.
    + rewrite Hv. replace (S n - 1)%nat with n by lia.
      destruct n as [|n']; [lia|]. replace (S n' - 1)%nat with n' by lia.
      rewrite Nat2N.inj_succ, N.pow_succ_r'. lia.
    + rewrite digits_cons by (try lia; assumption).
      cbn [app]. f_equal; [lia|]. exact Hbs.
Qed.

Theorem vlq_canonical bs v rest : bytes_wf bs ->
  vlq_dec bs = Some (v, rest) -> vlq_enc v ++ rest = bs.
Proof.
  intros Hwf. unfold vlq_dec. destruct (vlq_dec_lenient bs) as [[v' rest']|] eqn:Hd; [|discriminate].
  destruct (Nat.eqb (length bs - length rest') (needed v')) eqn:Hn; [|discriminate].
  intros H; inversion H; subst v' rest'; clear H.
  apply Nat.eqb_eq in Hn.
  destruct (dec_aux_canon bs 0 v rest Hwf Hd) as (_ & _ & w & Hw & Hv & Hbs).
  rewrite N.mul_0_l, N.add_0_l in Hv. subst w. rewrite Hn in Hbs. unfold vlq_enc. symmetry. exact Hbs.
Qed.
