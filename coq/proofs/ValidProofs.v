(* C01 / C02: what acceptance by CoinState.add_block (model/Validate.v) implies on the full-validation path, and
   the no-inflation / supply bound.  std++ style throughout. *)
From stdpp Require Import gmap.
From Coq Require Import NArith ZArith Lia.
From SkV Require Import Bytes Vlq Codec Merkle Ledger ChainState Pow Validate ChainDefs.
Open Scope N_scope.

(* ====================================================================================================== *)
(* PART A : inversion                                                                                       *)
(* ====================================================================================================== *)

(* ---- the error monad ---- *)
Lemma bind_ok {A B} (r : res A) (f : A -> res B) (y : B) :
  bind r f = Ok y <-> exists a, r = Ok a /\ f a = Ok y.
Proof.
  split.
  - destruct r as [a|k]; cbn; [eauto|discriminate].
  - intros (a & -> & Hf). exact Hf.
Qed.

Lemma check_ok (c : bool) (k : ekind) (x : unit) : check c k = Ok x <-> c = true.
Proof. destruct c, x; cbn; split; (done || discriminate). Qed.

Lemma of_opt_ok {A} (o : option A) (a : A) : of_opt o = Ok a <-> o = Some a.
Proof. destruct o; cbn; split; intros H; (by inversion H) || discriminate. Qed.

Lemma forM_ok {A} (f : A -> res unit) (l : list A) :
  forM f l = Ok tt <-> Forall (fun x => f x = Ok tt) l.
Proof.
  induction l as [|x r IH]; cbn [forM].
  - split; [constructor|done].
  - rewrite bind_ok, Forall_cons, <- IH. split.
    + intros ([] & Hx & Hr). done.
    + intros [Hx Hr]. exists tt. done.
Qed.

(* ---- duplicate scans ---- *)
Lemma nodup_keys_spec (l seen : list refkey) :
  nodup_keys seen l = true <-> NoDup l /\ forall k, k ∈ l -> k ∉ seen.
Proof.
  revert seen. induction l as [|k r IH]; intros seen; cbn [nodup_keys].
  - split; [intros _; split; [constructor|]|done]. intros k Hk. by apply elem_of_nil in Hk.
  - case_bool_decide as Hin.
    + split; [discriminate|]. intros [_ Hall]. exfalso. apply (Hall k); [left|done].
    + rewrite IH, NoDup_cons. split.
      * intros [Hnd Hall]. split; [split; [|done]|].
        -- intros Hkr. apply (Hall k Hkr). left.
        -- intros x [->|Hx]%elem_of_cons; [done|]. intros Hs. apply (Hall x Hx). by right.
      * intros [[Hkr Hnd] Hall]. split; [done|]. intros x Hx [->|Hs]%elem_of_cons; [done|].
        apply (Hall x); [by right|done].
Qed.

Lemma nodup_keys_nil (l : list refkey) : nodup_keys [] l = true <-> NoDup l.
Proof.
  rewrite nodup_keys_spec. split; [by intros []|]. intros H; split; [done|]. intros k _ Hk.
  by apply elem_of_nil in Hk.
Qed.

Lemma nodup_bytes_spec (l seen : list bytes) :
  nodup_bytes seen l = true <-> NoDup l /\ forall k, k ∈ l -> k ∉ seen.
Proof.
  revert seen. induction l as [|k r IH]; intros seen; cbn [nodup_bytes].
  - split; [intros _; split; [constructor|]|done]. intros k Hk. by apply elem_of_nil in Hk.
  - case_bool_decide as Hin.
    + split; [discriminate|]. intros [_ Hall]. exfalso. apply (Hall k); [left|done].
    + rewrite IH, NoDup_cons. split.
      * intros [Hnd Hall]. split; [split; [|done]|].
        -- intros Hkr. apply (Hall k Hkr). left.
        -- intros x [->|Hx]%elem_of_cons; [done|]. intros Hs. apply (Hall x Hx). by right.
      * intros [[Hkr Hnd] Hall]. split; [done|]. intros x Hx [->|Hs]%elem_of_cons; [done|].
        apply (Hall x); [by right|done].
Qed.

Lemma nodup_bytes_nil (l : list bytes) : nodup_bytes [] l = true <-> NoDup l.
Proof.
  rewrite nodup_bytes_spec. split; [by intros []|]. intros H; split; [done|]. intros k _ Hk.
  by apply elem_of_nil in Hk.
Qed.

Section A.
  Variable sha : bytes -> bytes.
  Variable scrypt : bytes -> bytes.
  Variable blake : bytes -> bytes.
  Variable verify : bytes -> bytes -> bytes -> N.
  Variable P : cparams.

  Lemma sashimi_range_ok v x : sashimi_range P v = Ok x <-> 0 < v <= p_max_sashimi P.
  Proof.
    unfold sashimi_range. rewrite check_ok, andb_true_iff, N.ltb_lt, N.leb_le. done.
  Qed.

  Lemma check_output_values_ok outs acc tot :
    check_output_values P outs acc = Ok tot ->
    tot = acc + sum_outputs outs /\ Forall (fun o => 0 < out_value o <= p_max_sashimi P) outs.
  Proof.
    revert acc. induction outs as [|o r IH]; intros acc; cbn [check_output_values sum_outputs fold_right].
    - intros [= <-]. split; [lia|constructor].
    - rewrite bind_ok. intros (x & Hr%sashimi_range_ok & Hrest). apply IH in Hrest as [-> Hall].
      split; [|by constructor]. fold (sum_outputs r). lia.
  Qed.

  Lemma v_sig_for_spend_ok i o t x :
    v_sig_for_spend verify i o t = Ok x ->
    exists sg, in_sig i = SigSecp sg /\ verify (out_pk o) sg (enc_tx (signable t)) = 1.
  Proof.
    unfold v_sig_for_spend. destruct (in_sig i) as [| |sg]; try discriminate.
    destruct (verify (out_pk o) sg (enc_tx (signable t)) =? 1) eqn:E1.
    - intros _. exists sg. split; [done|]. by apply N.eqb_eq.
    - destruct (_ =? 0); discriminate.
  Qed.

  Lemma v_inputs_in_state_ok u t ins acc tot :
    v_inputs_in_state verify u t ins acc = Ok tot ->
    Forall (fun i => exists o sg, u !! ref_key (in_ref i) = Some o /\ in_sig i = SigSecp sg /\
                                  verify (out_pk o) sg (enc_tx (signable t)) = 1) ins /\
    exists v, inputs_value u ins = Some v /\ tot = acc + v.
  Proof.
    revert acc. induction ins as [|i r IH]; intros acc; cbn [v_inputs_in_state inputs_value].
    - intros [= <-]. split; [constructor|]. exists 0. split; [done|lia].
    - destruct (u !! ref_key (in_ref i)) as [o|] eqn:Hu; [|discriminate].
      rewrite bind_ok. intros (x & (sg & Hsg & Hv)%v_sig_for_spend_ok & Hrest).
      apply IH in Hrest as (Hall & v & Hval & ->). split.
      + constructor; [|done]. exists o, sg. done.
      + rewrite Hval. exists (out_value o + v). split; [done|lia].
  Qed.

  (* what a non-reward transaction that passes the by-itself check satisfies *)
  Lemma v_noncb_by_itself_ok t :
    v_noncb_by_itself P t = Ok tt ->
    tx_inputs t <> [] /\
    Forall (fun o => 0 < out_value o <= p_max_sashimi P) (tx_outputs t) /\
    0 < sum_outputs (tx_outputs t) <= p_max_sashimi P /\
    NoDup (tx_refs t) /\
    Forall (fun i => thin_air (in_ref i) = false /\ is_real_sig (in_sig i) = true) (tx_inputs t).
  Proof.
    unfold v_noncb_by_itself.
    rewrite bind_ok. intros (x1 & H1%check_ok & H).
    rewrite bind_ok in H. destruct H as (x2 & H2 & H).
    rewrite bind_ok in H. destruct H as (x3 & H3 & H).
    rewrite bind_ok in H. destruct H as (tot & (-> & Hvals)%check_output_values_ok & H).
    rewrite bind_ok in H. destruct H as (x5 & H5%sashimi_range_ok & H).
    rewrite bind_ok in H. destruct H as (x6 & H6%check_ok%nodup_keys_nil & H).
    apply forM_ok in H.
    split; [|split; [done|split; [by rewrite N.add_0_l in H5|split; [done|]]]].
    - intros E. rewrite E in H1. discriminate.
    - eapply Forall_impl; [exact H|]. cbn beta. intros i.
      rewrite bind_ok. intros (y & Hy%check_ok & Hs%check_ok). split; [|done].
      by apply negb_true_iff.
  Qed.

  Lemma v_noncb_in_state_ok u t :
    v_noncb_in_state verify u t = Ok tt ->
    Forall (fun i => exists o sg, u !! ref_key (in_ref i) = Some o /\ in_sig i = SigSecp sg /\
                                  verify (out_pk o) sg (enc_tx (signable t)) = 1) (tx_inputs t) /\
    exists vin, inputs_value u (tx_inputs t) = Some vin /\ sum_outputs (tx_outputs t) <= vin.
  Proof.
    unfold v_noncb_in_state. rewrite bind_ok.
    intros (tot & (Hall & v & Hv & ->)%v_inputs_in_state_ok & Hc%check_ok%N.leb_le).
    split; [done|]. exists v. split; [done|lia].
  Qed.

  (* everything the two validation stages establish on the full-validation path, in one statement *)
  Lemma accept_inv s b now s' :
    add_block sha scrypt blake verify P s b now = Ok s' -> FV P b ->
    exists cb rest u fees prev,
      b_txs b = cb :: rest /\
      cs_blocks s !! b_prev b = Some prev /\ b_height b = b_height prev + 1 /\
      cs_utxo s !! b_prev b = Some u /\
      block_fees u rest = Some fees /\
      (Z.of_N (sum_outputs (tx_outputs cb)) <= fees + Z.of_N (get_block_subsidy P (b_height b)))%Z /\
      Forall (fun t => v_noncb_by_itself P t = Ok tt) rest /\
      NoDup (concat (map tx_refs rest)) /\
      Forall (fun t => v_noncb_in_state verify u t = Ok tt) rest /\
      add_nv sha s b = Some s'.
  Proof.
    unfold add_block, FV. intros H Hfv.
    rewrite bind_ok in H. destruct H as ([] & Hself & H).
    rewrite bind_ok in H. destruct H as ([] & Hstate & Hnv%of_opt_ok).
    (* by itself *)
    unfold v_block_by_itself in Hself.
    rewrite bind_ok in Hself. destruct Hself as (x0 & _ & Hself).
    destruct (b_txs b) as [|cb rest] eqn:Htxs; [discriminate|].
    rewrite bind_ok in Hself. destruct Hself as (x1 & _ & Hself).
    rewrite bind_ok in Hself. destruct Hself as (x2 & _ & Hself).
    rewrite bind_ok in Hself. destruct Hself as (x3 & _ & Hself).
    rewrite bind_ok in Hself. destruct Hself as ([] & Hnoncb%forM_ok & Hself).
    rewrite bind_ok in Hself. destruct Hself as (x5 & _ & Hself).
    rewrite bind_ok in Hself. destruct Hself as (x6 & Hnd%check_ok%nodup_keys_nil & _).
    (* in state *)
    unfold v_block_in_state in Hstate.
    assert ((Z.of_N (b_height b) <=? p_hz P)%Z = false) as Hhz by (apply Z.leb_gt; exact Hfv).
    rewrite Hhz, Htxs in Hstate.
    rewrite bind_ok in Hstate. destruct Hstate as (y0 & _ & Hstate).
    rewrite bind_ok in Hstate. destruct Hstate as (ev & _ & Hstate).
    rewrite bind_ok in Hstate. destruct Hstate as (y1 & _ & Hstate).
    rewrite bind_ok in Hstate. destruct Hstate as (y2 & Hcb & Hstate).
    rewrite bind_ok in Hstate. destruct Hstate as (u & Hu%of_opt_ok & Hins%forM_ok).
    unfold v_cb_in_state in Hcb. rewrite Htxs in Hcb. cbn [tl] in Hcb.
    rewrite bind_ok in Hcb. destruct Hcb as (prev & Hprev%of_opt_ok & Hcb).
    rewrite bind_ok in Hcb. destruct Hcb as (y3 & Hh%check_ok%N.eqb_eq & Hcb).
    rewrite bind_ok in Hcb. destruct Hcb as (u' & Hu'%of_opt_ok & Hcb).
    rewrite Hu in Hu'. injection Hu' as <-.
    rewrite bind_ok in Hcb. destruct Hcb as (fees & Hfees%of_opt_ok & Hle%check_ok%Z.leb_le).
    exists cb, rest, u, fees, prev. done.
  Qed.

  (* C01 *)
  Theorem accept_sound_spend s b now s' :
    add_block sha scrypt blake verify P s b now = Ok s' -> FV P b ->
    exists cb rest u, b_txs b = cb :: rest /\ cs_utxo s !! b_prev b = Some u /\
      Forall (fun t => Forall (fun i => exists o sg, u !! ref_key (in_ref i) = Some o /\ in_sig i = SigSecp sg /\
                                    verify (out_pk o) sg (enc_tx (signable t)) = 1) (tx_inputs t)) rest /\
      NoDup (concat (map tx_refs rest)) /\
      Forall (fun t => tx_inputs t <> [] /\ Forall (fun i => thin_air (in_ref i) = false) (tx_inputs t)) rest.
  Proof.
    intros H Hfv.
    destruct (accept_inv _ _ _ _ H Hfv) as
      (cb & rest & u & fees & prev & Htxs & _ & _ & Hu & _ & _ & Hself & Hnd & Hst & _).
    exists cb, rest, u. split; [done|split; [done|split; [|split; [done|]]]].
    - eapply Forall_impl; [exact Hst|]. cbn beta. intros t Ht. by apply v_noncb_in_state_ok in Ht as [? _].
    - eapply Forall_impl; [exact Hself|]. cbn beta. intros t Ht.
      apply v_noncb_by_itself_ok in Ht as (Hne & _ & _ & _ & Hta). split; [done|].
      eapply Forall_impl; [exact Hta|]. cbn beta. by intros i [? _].
  Qed.

  (* C02 *)
  Theorem accept_sound_value s b now s' :
    add_block sha scrypt blake verify P s b now = Ok s' -> FV P b ->
    exists cb rest u fees, b_txs b = cb :: rest /\ cs_utxo s !! b_prev b = Some u /\
      block_fees u rest = Some fees /\
      (Z.of_N (sum_outputs (tx_outputs cb)) <= fees + Z.of_N (get_block_subsidy P (b_height b)))%Z /\
      Forall (fun t => Forall (fun o => 0 < out_value o <= p_max_sashimi P) (tx_outputs t) /\
                       0 < sum_outputs (tx_outputs t) <= p_max_sashimi P /\
                       exists vin, inputs_value u (tx_inputs t) = Some vin /\ sum_outputs (tx_outputs t) <= vin) rest /\
      (exists prev, cs_blocks s !! b_prev b = Some prev /\ b_height b = b_height prev + 1).
  Proof.
    intros H Hfv.
    destruct (accept_inv _ _ _ _ H Hfv) as
      (cb & rest & u & fees & prev & Htxs & Hprev & Hh & Hu & Hfees & Hle & Hself & Hnd & Hst & _).
    exists cb, rest, u, fees. split; [done|split; [done|split; [done|split; [done|split; [|by exists prev]]]]].
    apply Forall_forall. intros t Ht.
    rewrite Forall_forall in Hself, Hst.
    destruct (v_noncb_by_itself_ok _ (Hself t Ht)) as (_ & Hvals & Hsum & _ & _).
    destruct (v_noncb_in_state_ok _ _ (Hst t Ht)) as (_ & Hvin). done.
  Qed.
End A.

(* ====================================================================================================== *)
(* PART B : no inflation                                                                                    *)
(* ====================================================================================================== *)

(* Ledger.utxo is a definitional abbreviation of [gmap refkey output]; std++'s rewriting lemmas are keyed on the
   syntactic shape [gmap K A], so the statements below are written with the abbreviation unfolded (they are
   convertible to, and used as, statements about [Ledger.utxo]) and [nu] unfolds it wherever evaluating a model
   function reintroduces it. *)
Local Notation utxo := (gmap refkey output).
Ltac nu := unfold Ledger.utxo in *.

(* ---- utxo_total under insert / delete ---- *)
Lemma total_empty : utxo_total ∅ = 0.
Proof. unfold utxo_total. apply map_fold_empty. Qed.

Lemma total_insert_fresh (u : utxo) (k : refkey) (o : output) :
  u !! k = None -> utxo_total (<[k:=o]> u) = utxo_total u + out_value o.
Proof.
  intros Hk. unfold utxo_total.
  apply (map_fold_insert_L (M:=gmap refkey) (fun (_ : refkey) (x : output) (acc : N) => acc + out_value x) 0 k o u);
    [|done].
  intros. lia.
Qed.

Lemma total_delete (u : utxo) (k : refkey) (o : output) :
  u !! k = Some o -> utxo_total (delete k u) + out_value o = utxo_total u.
Proof.
  intros Hk. rewrite <- (insert_delete u k o Hk) at 2.
  rewrite total_insert_fresh; [done|]. apply lookup_delete.
Qed.

Lemma total_insert_le (u : utxo) (k : refkey) (o : output) : utxo_total (<[k:=o]> u) <= utxo_total u + out_value o.
Proof.
  destruct (u !! k) as [o'|] eqn:Hk.
  - rewrite <- insert_delete_insert, total_insert_fresh by apply lookup_delete.
    pose proof (total_delete u k o' Hk). lia.
  - rewrite total_insert_fresh by done. lia.
Qed.

(* ---- spending ---- *)
Lemma inputs_value_mono (u1 u2 : utxo) (ins : list input) (v : N) :
  u1 ⊆ u2 -> inputs_value u1 ins = Some v -> inputs_value u2 ins = Some v.
Proof.
  intros Hsub. revert v. induction ins as [|i r IH]; intros v; cbn [inputs_value]; nu; [done|].
  destruct (u1 !! ref_key (in_ref i)) as [o|] eqn:H1; [|discriminate].
  destruct (inputs_value u1 r) as [v'|]; [|discriminate].
  rewrite (lookup_weaken _ _ _ _ H1 Hsub), (IH v' eq_refl). done.
Qed.

Lemma spend_total (ins : list input) (u u' : utxo) :
  spend_inputs ins u = Some u' -> exists v, inputs_value u ins = Some v /\ utxo_total u' + v = utxo_total u.
Proof.
  revert u. induction ins as [|i r IH]; intros u; cbn [spend_inputs inputs_value]; nu.
  - intros [= <-]. exists 0. split; [done|lia].
  - destruct (u !! ref_key (in_ref i)) as [o|] eqn:Hk; [|discriminate].
    intros (v & Hv & Htot)%IH.
    rewrite (inputs_value_mono _ u _ _ (delete_subseteq _ _) Hv).
    exists (out_value o + v). split; [done|].
    pose proof (total_delete u _ o Hk). lia.
Qed.

(* the result of spend_inputs, pointwise *)
Lemma spend_lookup (ins : list input) (u u' : utxo) (k : refkey) :
  spend_inputs ins u = Some u' ->
  u' !! k = if decide (k ∈ map (fun i => ref_key (in_ref i)) ins) then None else u !! k.
Proof.
  revert u. induction ins as [|i r IH]; intros u; cbn [spend_inputs map]; nu.
  - intros [= <-]. rewrite decide_False; [done|]. apply not_elem_of_nil.
  - destruct (u !! ref_key (in_ref i)) as [o|] eqn:Hk; [|discriminate].
    intros ->%IH. destruct (decide (k = ref_key (in_ref i))) as [->|Hne].
    + rewrite (decide_True (P := _ ∈ _ :: _)) by left. case_decide; [done|]. apply lookup_delete.
    + rewrite lookup_delete_ne by done. repeat case_decide; try done.
      * exfalso. set_solver.
      * exfalso. set_solver.
Qed.

(* ---- adding outputs ---- *)
Lemma add_outputs_total (id : bytes) (i : N) (outs : list output) (u : utxo) :
  utxo_total (add_outputs id i outs u) <= utxo_total u + sum_outputs outs.
Proof.
  revert i u. induction outs as [|o r IH]; intros i u; cbn [add_outputs sum_outputs fold_right]; nu.
  - lia.
  - fold (sum_outputs r). etrans; [apply IH|]. etrans; [apply N.add_le_mono_r, total_insert_le|]. lia.
Qed.

(* ---- the part of the unspent set outside a key list ---- *)
Definition outside (K : list refkey) (u : utxo) : utxo := filter (fun kv => kv.1 ∉ K) u.

Lemma outside_nil (u : utxo) : outside [] u = u.
Proof.
  apply map_eq. intros k. apply option_eq. intros o. unfold outside.
  rewrite map_filter_lookup_Some. cbn. split; [by intros []|]. intros H; split; [done|]. apply not_elem_of_nil.
Qed.

Lemma outside_empty (K : list refkey) : outside K ∅ = ∅.
Proof. apply map_filter_empty. Qed.

Lemma outside_insert_le (K : list refkey) (k : refkey) (o : output) (u : utxo) :
  utxo_total (outside K (<[k:=o]> u)) <= utxo_total (outside K u) + out_value o.
Proof.
  unfold outside. destruct (decide (k ∈ K)) as [Hin|Hout].
  - rewrite map_filter_insert_not; [lia|]. cbn. intros _ Hn. done.
  - rewrite map_filter_insert_True by done. apply total_insert_le.
Qed.

Lemma outside_add_outputs_le (K : list refkey) (id : bytes) (i : N) (outs : list output) (u : utxo) :
  utxo_total (outside K (add_outputs id i outs u)) <= utxo_total (outside K u) + sum_outputs outs.
Proof.
  revert i u. induction outs as [|o r IH]; intros i u; cbn [add_outputs sum_outputs fold_right]; nu.
  - lia.
  - fold (sum_outputs r). etrans; [apply IH|]. etrans; [apply N.add_le_mono_r, outside_insert_le|]. lia.
Qed.

Lemma outside_spend (K : list refkey) (ins : list input) (u u' : utxo) :
  spend_inputs ins u = Some u' ->
  outside K u' = outside (map (fun i => ref_key (in_ref i)) ins ++ K) u.
Proof.
  intros Hsp. apply map_eq. intros k. apply option_eq. intros o. unfold outside.
  rewrite !map_filter_lookup_Some, (spend_lookup _ _ _ k Hsp). cbn. rewrite not_elem_of_app.
  case_decide; naive_solver.
Qed.

(* removing one more (fresh, present) key from the outside part takes out exactly its value *)
Lemma outside_cons_total (K : list refkey) (k : refkey) (o : output) (u : utxo) :
  u !! k = Some o -> k ∉ K ->
  utxo_total (outside (k :: K) u) + out_value o = utxo_total (outside K u).
Proof.
  intros Hk Hnin.
  assert (outside (k :: K) u = delete k (outside K u)) as ->.
  { apply map_eq. intros j. apply option_eq. intros x. unfold outside.
    rewrite lookup_delete_Some, !map_filter_lookup_Some. cbn. rewrite not_elem_of_cons. naive_solver. }
  apply total_delete. unfold outside. apply map_filter_lookup_Some. done.
Qed.

Lemma outside_le (K : list refkey) (u : utxo) : utxo_total (outside K u) <= utxo_total u.
Proof.
  induction K as [|k K IH]; [by rewrite outside_nil|].
  destruct (decide (k ∈ K)) as [Hin|Hnin].
  - assert (outside (k :: K) u = outside K u) as ->; [|done].
    apply map_eq. intros j. apply option_eq. intros x. unfold outside.
    rewrite !map_filter_lookup_Some. cbn. rewrite not_elem_of_cons. naive_solver.
  - destruct (u !! k) as [o|] eqn:Hk.
    + pose proof (outside_cons_total K k o u Hk Hnin). lia.
    + assert (outside (k :: K) u = outside K u) as ->; [|done].
      apply map_eq. intros j. apply option_eq. intros x. unfold outside.
      rewrite !map_filter_lookup_Some. cbn. rewrite not_elem_of_cons. naive_solver.
Qed.

(* distinct inputs that are all present: outside part + their value = everything *)
Lemma outside_inputs_total (ins : list input) (u : utxo) (v : N) :
  NoDup (map (fun i => ref_key (in_ref i)) ins) -> inputs_value u ins = Some v ->
  utxo_total (outside (map (fun i => ref_key (in_ref i)) ins) u) + v = utxo_total u.
Proof.
  revert v. induction ins as [|i r IH]; intros v; cbn [map inputs_value]; nu.
  - intros _ [= <-]. rewrite outside_nil. lia.
  - intros [Hnin Hnd]%NoDup_cons.
    destruct (u !! ref_key (in_ref i)) as [o|] eqn:Hk; [|discriminate].
    destruct (inputs_value u r) as [v'|]; [|discriminate]. intros [= <-].
    pose proof (IH v' Hnd eq_refl). pose proof (outside_cons_total _ _ o u Hk Hnin). lia.
Qed.

(* ---- sums over the non-reward transactions of a block ---- *)
Definition all_inputs (ts : list tx) : list input := concat (map tx_inputs ts).
Fixpoint outs_total (ts : list tx) : N :=
  match ts with [] => 0 | t :: r => sum_outputs (tx_outputs t) + outs_total r end.

Lemma all_refs ts : concat (map tx_refs ts) = map (fun i => ref_key (in_ref i)) (all_inputs ts).
Proof.
  unfold all_inputs. induction ts as [|t r IH]; cbn [map concat]; [done|].
  rewrite map_app, IH. done.
Qed.

Lemma inputs_value_app (u : utxo) (a b : list input) :
  inputs_value u (a ++ b) =
  match inputs_value u a, inputs_value u b with Some x, Some y => Some (x + y) | _, _ => None end.
Proof.
  induction a as [|i r IH]; cbn [app inputs_value]; nu.
  - destruct (inputs_value u b); [f_equal|done].
  - destruct (u !! ref_key (in_ref i)); [|done]. rewrite IH.
    destruct (inputs_value u r), (inputs_value u b); try done. f_equal. lia.
Qed.

Lemma block_fees_split (u : utxo) (ts : list tx) (fees : Z) :
  block_fees u ts = Some fees ->
  exists vin, inputs_value u (all_inputs ts) = Some vin /\ fees = (Z.of_N vin - Z.of_N (outs_total ts))%Z.
Proof.
  revert fees. unfold all_inputs.
  induction ts as [|t r IH]; intros fees; cbn [block_fees map concat outs_total]; nu.
  - intros [= <-]. exists 0. done.
  - unfold tx_fee. destruct (inputs_value u (tx_inputs t)) as [v|] eqn:Hv; [|discriminate].
    destruct (block_fees u r) as [f|]; [|discriminate]. intros [= <-].
    destruct (IH f eq_refl) as (vin & Hvin & ->).
    rewrite inputs_value_app, Hv, Hvin. exists (v + vin). split; [done|lia].
Qed.

Section B.
  Variable sha : bytes -> bytes.
  Variable scrypt : bytes -> bytes.
  Variable blake : bytes -> bytes.
  Variable verify : bytes -> bytes -> bytes -> N.
  Variable P : cparams.

  (* applying the non-reward transactions to ANY running set w: whatever w holds under keys that are still to be
     spent never reaches the result (it is either deleted, or overwritten and then deleted), and every
     transaction adds at most its outputs *)
  Lemma apply_txs_total (ts : list tx) (w w' : utxo) :
    uto_apply_txs sha w ts = Some w' ->
    utxo_total w' <= utxo_total (outside (concat (map tx_refs ts)) w) + outs_total ts.
  Proof.
    revert w. induction ts as [|t r IH]; intros w; cbn [uto_apply_txs map concat outs_total]; nu.
    - intros [= <-]. rewrite outside_nil. lia.
    - unfold uto_apply_tx; nu. destruct (spend_inputs (tx_inputs t) w) as [w1|] eqn:Hsp; [|discriminate].
      intros Hr%IH.
      pose proof (outside_add_outputs_le (concat (map tx_refs r)) (tx_id sha t) 0 (tx_outputs t) w1) as Hadd.
      rewrite (outside_spend _ _ _ _ Hsp) in Hadd. fold (tx_refs t) in Hadd. lia.
  Qed.

  Lemma add_nv_inv s b s' :
    add_nv sha s b = Some s' ->
    exists u0 u1,
      (if is_zero32 (b_prev b) then Some ∅ else cs_utxo s !! b_prev b) = Some u0 /\
      uto_apply_block sha u0 b = Some u1 /\
      cs_blocks s' = <[block_id sha b := b]> (cs_blocks s) /\
      cs_utxo s' = <[block_id sha b := u1]> (cs_utxo s).
  Proof.
    unfold add_nv. intros H.
    match type of H with match ?x with _ => _ end = _ => destruct x as [u0|] eqn:E0; [|discriminate] end.
    match type of H with match ?x with _ => _ end = _ => destruct x as [u1|] eqn:E1; [|discriminate] end.
    match type of H with match ?x with _ => _ end = _ => destruct x as [bh|] eqn:E2; [|discriminate] end.
    match type of H with match ?x with _ => _ end = _ => destruct x as [cur|] eqn:E3; [|discriminate] end.
    revert H.
    intros [= <-]. exists u0, u1. done.
  Qed.

  (* C02_step.  Proof idea: with K = all references spent by the non-reward transactions,
       total u1 <= total (outside K w) + outs(rest)            (apply_txs_total, w = u0 + reward outputs)
                <= total (outside K u0) + outs(cb) + outs(rest) (outside_add_outputs_le)
                <= total (outside K u)  + outs(cb) + outs(rest) (u0 = u, or u0 = ∅ when the parent id is all-zero:
                                                                 add_nv then starts from the empty set although the
                                                                 validation read u; the bound still holds)
                 = total u - vin + outs(cb) + outs(rest)        (outside_inputs_total: K is duplicate-free and every
                                                                 reference is present in u - from validation)
                <= total u + subsidy                            (reward check, fees = vin - outs(rest)).
     No exactness of the running set is needed: an output inserted under a key that is still to be spent (or that
     overwrites an existing key) never increases the part of the set outside K by more than its value. *)
  Theorem block_step_total s b now s' :
    add_block sha scrypt blake verify P s b now = Ok s' -> FV P b ->
    exists u u', cs_utxo s !! b_prev b = Some u /\ cs_utxo s' !! block_id sha b = Some u' /\
                 utxo_total u' <= utxo_total u + get_block_subsidy P (b_height b).
  Proof.
    intros H Hfv.
    destruct (accept_inv _ _ _ _ _ _ _ _ _ H Hfv) as
      (cb & rest & u & fees & prev & Htxs & _ & _ & Hu & Hfees & Hle & _ & Hnd & _ & Hnv).
    destruct (add_nv_inv _ _ _ Hnv) as (u0 & u1 & Hu0 & Happ & _ & Hutxo). nu.
    exists u, u1. split; [done|]. split; [rewrite Hutxo; apply lookup_insert|].
    unfold uto_apply_block in Happ. rewrite Htxs in Happ. cbn [uto_apply_tx] in Happ.
    apply apply_txs_total in Happ.
    set (K := concat (map tx_refs rest)) in *.
    pose proof (outside_add_outputs_le K (tx_id sha cb) 0 (tx_outputs cb) u0) as Hcb.
    assert (utxo_total (outside K u0) <= utxo_total (outside K u)) as H0.
    { destruct (is_zero32 (b_prev b)).
      - injection Hu0 as <-. rewrite outside_empty. pose proof total_empty as He. nu. rewrite He. lia.
      - rewrite Hu in Hu0. injection Hu0 as <-. lia. }
    destruct (block_fees_split _ _ _ Hfees) as (vin & Hvin & ->).
    pose proof (outside_inputs_total (all_inputs rest) u vin) as Hsplit.
    rewrite <- all_refs in Hsplit. specialize (Hsplit Hnd Hvin). fold K in Hsplit.
    lia.
  Qed.

  (* ---- C02_supply ---- *)
  Fixpoint cum_nat (n : nat) : N :=
    match n with
    | O => get_block_subsidy P 0
    | S m => cum_nat m + get_block_subsidy P (N.of_nat (S m))
    end.
  (* sum of get_block_subsidy P k for k = 0..h *)
  Definition cum (h : N) : N := cum_nat (N.to_nat h).

  Lemma cum_0 : cum 0 = get_block_subsidy P 0.
  Proof. done. Qed.
  Lemma cum_succ h : cum (h + 1) = cum h + get_block_subsidy P (h + 1).
  Proof.
    unfold cum. replace (N.to_nat (h + 1)) with (S (N.to_nat h)) by lia. cbn [cum_nat].
    replace (N.of_nat (S (N.to_nat h))) with (h + 1) by lia. done.
  Qed.

  Definition SupplyInv (s : cstate) : Prop :=
    forall h b u, cs_blocks s !! h = Some b -> cs_utxo s !! h = Some u -> utxo_total u <= cum (b_height b).

  Lemma supply_step s b now s' :
    SupplyInv s -> FV P b -> add_block sha scrypt blake verify P s b now = Ok s' -> SupplyInv s'.
  Proof.
    intros Hinv Hfv Hadd.
    destruct (block_step_total _ _ _ _ Hadd Hfv) as (u & u1 & Hu & Hu1 & Hle).
    destruct (accept_inv _ _ _ _ _ _ _ _ _ Hadd Hfv) as
      (cb & rest & u_ & fees & prev & _ & Hprev & Hh & Hu_ & _ & _ & _ & _ & _ & Hnv).
    destruct (add_nv_inv _ _ _ Hnv) as (u0 & u1' & _ & _ & Hblocks & Hutxo).
    intros h b' u' Hb' Hu'. rewrite Hblocks in Hb'. rewrite Hutxo in Hu', Hu1. nu.
    destruct (decide (h = block_id sha b)) as [->|Hne].
    - rewrite lookup_insert in Hb'. rewrite lookup_insert in Hu'. rewrite lookup_insert in Hu1. injection Hb' as <-. rewrite Hu' in Hu1. injection Hu1 as <-.
      pose proof (Hinv _ _ _ Hprev Hu) as Hp. rewrite Hh in Hle |- *. rewrite cum_succ. lia.
    - rewrite lookup_insert_ne in Hb' by done. rewrite lookup_insert_ne in Hu' by done. by eapply Hinv.
  Qed.

  Lemma supply_inv_empty : SupplyInv cs_empty.
  Proof. intros h b u Hb. cbn in Hb. by rewrite lookup_empty in Hb. Qed.

  (* C02_supply.  No well-formedness of the base state beyond SupplyInv itself is needed: the new block and its
     unspent set are stored under the same key (overriding whatever was there), and the parent's entry supplies
     the bound for height - 1.  (The freshness premise of validated_from is not used either.) *)
  Theorem supply_bound s0 s :
    SupplyInv s0 -> validated_from sha scrypt blake verify P s0 s -> SupplyInv s.
  Proof.
    intros H0 Hv. induction Hv as [|s b now s' Hv IH Hfv Hfresh Hadd]; [done|].
    by eapply supply_step.
  Qed.
End B.
