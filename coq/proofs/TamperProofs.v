(* Value-level tamper evidence of blocks.

   A block is (summary, evidence, transaction list).  Above the checkpoint horizon (FV) an accepted block carries
   exactly the evidence recomputed by construct_evidence (HeaderProofs.accept_sound_header):
       summary_hash = scrypt (enc_summary sm ++ be_enc 8 height)
       sample       = chain sample (a function of summary_hash, height and the state)
       block_hash   = blake (summary_hash ++ sample ++ enc_list enc_tx txs)
   so the evidence commits to the summary (through scrypt) and to the transaction list (through blake), and the block
   id sha (enc_header header) commits to summary and evidence.  The theorems below turn this into: two acceptable
   blocks that agree on two of the three components are equal, i.e. altering a single component of an acceptable
   block never yields another acceptable block.

   The cryptographic idealisations are EXPLICIT HYPOTHESES of the Section (injectivity of the three hash functions on
   byte strings); each theorem is closed with [Proof using] naming exactly the ones it needs, so that after the
   Section closes every theorem carries its own premises only (see the Check output at the end of the file).
   Nothing is postulated globally; Print Assumptions of every theorem is "Closed under the global context".

   NOT PROVED HERE (and not provable from injectivity alone): that an alteration which changes SEVERAL components at
   once cannot be acceptable.  Example: a bit flip inside a variable-length prefix (the VLQ height, the VLQ
   transaction count, a coinbase-data length byte) shifts the boundaries of all later fields, so the decoded block
   may differ from the original in summary, evidence AND transaction list simultaneously; whether such a block is
   acceptable is the question whether scrypt/blake of the new content happen to equal the (also altered) stated
   evidence and whether the new id is below the new target.  Excluding that needs a random-oracle (probabilistic)
   argument, not an injectivity one.  It is covered by exhaustive enumeration of single-bit/single-byte alterations
   in the test harness instead.  Likewise nothing here is claimed for blocks at or below the checkpoint horizon
   (not FV), where validation only compares the id with the table of known hashes. *)
From stdpp Require Import gmap.
From Coq Require Import NArith ZArith Lia.
From SkV Require Import Bytes Vlq Codec Merkle Ledger ChainState Pow Validate ChainDefs HeaderProofs CodecProofs.
Open Scope N_scope.

(* ------------------------------------------------------------------------------------------------------------ *)
(* 0. list and record helpers (no hash functions involved)                                                        *)
(* ------------------------------------------------------------------------------------------------------------ *)

(* two concatenations with equally long tails split at the same place *)
Lemma app_inv_tail_length {A} (l1 l2 t1 t2 : list A) :
  l1 ++ t1 = l2 ++ t2 -> length t1 = length t2 -> l1 = l2 /\ t1 = t2.
Proof. intros H Hlen. apply app_inj_2; done. Qed.

(* the list encoder is injective on lists of well-formed transactions (from the round trip with r = []) *)
Lemma enc_txs_inj (l l' : list tx) :
  forallb wf_tx l = true -> forallb wf_tx l' = true -> enc_list enc_tx l = enc_list enc_tx l' -> l = l'.
Proof.
  apply (enc_inj_of_rt (forallb wf_tx) (enc_list enc_tx) (dec_list dec_tx)).
  intros x r Hx. apply (dec_list_roundtrip wf_tx enc_tx dec_tx dec_tx_roundtrip enc_tx_nonempty). exact Hx.
Qed.

Lemma block_ext (b b' : block) :
  h_summary (b_header b) = h_summary (b_header b') -> h_evidence (b_header b) = h_evidence (b_header b') ->
  b_txs b = b_txs b' -> b = b'.
Proof.
  destruct b as [[sm ev] txs], b' as [[sm' ev'] txs']; cbn [b_header b_txs h_summary h_evidence].
  intros -> -> ->; done.
Qed.

Lemma wf_block_parts (b : block) :
  wf_block b = true ->
  wf_summary (h_summary (b_header b)) = true /\ wf_evidence (h_evidence (b_header b)) = true /\
  wf_header (b_header b) = true /\ forallb wf_tx (b_txs b) = true.
Proof.
  unfold wf_block, wf_header. rewrite !andb_true_iff. intros [[Hs He] Ht].
  repeat split; try done; rewrite Hs, He; done.
Qed.

(* ------------------------------------------------------------------------------------------------------------ *)
(* 1. what the evidence of an accepted block commits to                                                           *)
(* ------------------------------------------------------------------------------------------------------------ *)
Section Tamper.
  Variable sha : bytes -> bytes.
  Variable scrypt : bytes -> bytes.
  Variable blake : bytes -> bytes.
  Variable verify : bytes -> bytes -> bytes -> N.
  Variable P : cparams.

  (* the cryptographic idealisations; every proof below names the ones it uses *)
  Hypothesis sha_inj : forall a b : bytes, sha a = sha b -> a = b.
  Hypothesis scrypt_inj : forall a b : bytes, scrypt a = scrypt b -> a = b.
  Hypothesis blake_inj : forall a b : bytes, blake a = blake b -> a = b.

  Notation accepted s b now s' := (add_block sha scrypt blake verify P s b now = Ok s').

  (* the summary hash of a block: scrypt over the encoded summary, salted with the 8-byte height *)
  Definition summary_hash_of (b : block) : bytes :=
    scrypt (enc_summary (h_summary (b_header b)) ++ be_enc 8 (b_height b)).

  (* the shape of the evidence, independently of the state the chain sample was drawn from *)
  Definition commits (b : block) : Prop :=
    exists sample,
      h_evidence (b_header b) =
      mkEvidence (summary_hash_of b) sample
                 (blake (summary_hash_of b ++ sample ++ enc_list enc_tx (b_txs b))).

  Lemma accepted_recomputed s b now s1 :
    accepted s b now s1 -> FV P b ->
    construct_evidence sha scrypt blake P s (h_summary (b_header b)) (b_height b) (b_txs b)
    = Some (h_evidence (b_header b)).
  Proof using Type.
    intros H Hfv.
    destruct (accept_sound_header _ _ _ _ _ _ _ _ _ H Hfv)
      as (_ & prev & cb & rest & ev & _ & _ & _ & _ & _ & _ & _ & Hev & Heq).
    rewrite Heq; exact Hev.
  Qed.

  Lemma construct_evidence_commits s sm h txs ev :
    construct_evidence sha scrypt blake P s sm h txs = Some ev ->
    exists sample,
      ev = mkEvidence (scrypt (enc_summary sm ++ be_enc 8 h)) sample
                      (blake (scrypt (enc_summary sm ++ be_enc 8 h) ++ sample ++ enc_list enc_tx txs)).
  Proof using Type.
    unfold construct_evidence. cbv zeta. intros H.
    destruct (2 ^ 64 <=? h); [discriminate|].
    match type of H with
    | match ?d with Some _ => _ | None => _ end = _ => destruct d as [sample|]; [|discriminate]
    end.
    injection H as <-. exists sample; done.
  Qed.

  Lemma accepted_commits s b now s1 : accepted s b now s1 -> FV P b -> commits b.
  Proof using Type.
    intros H Hfv. apply (construct_evidence_commits s), (accepted_recomputed _ _ _ _ H Hfv).
  Qed.

  (* ---------------------------------------------------------------------------------------------------------- *)
  (* 2. (summary, transactions) determine the evidence: no injectivity needed, same state                         *)
  (* ---------------------------------------------------------------------------------------------------------- *)
  Theorem evidence_is_function s b b' now now' s1 s2 :
    accepted s b now s1 -> accepted s b' now' s2 -> FV P b -> FV P b' ->
    h_summary (b_header b) = h_summary (b_header b') -> b_txs b = b_txs b' -> b = b'.
  Proof using Type.
    intros H H' Hfv Hfv' Hsm Htx.
    pose proof (accepted_recomputed _ _ _ _ H Hfv) as E.
    pose proof (accepted_recomputed _ _ _ _ H' Hfv') as E'.
    unfold b_height in E, E'. rewrite Hsm, Htx, E' in E. injection E as Hev.
    apply block_ext; done.
  Qed.

  (* ---------------------------------------------------------------------------------------------------------- *)
  (* 3. (summary, evidence) determine the transactions: blake                                                      *)
  (* ---------------------------------------------------------------------------------------------------------- *)
  Lemma commits_same_header_same_txs b b' :
    commits b -> commits b' -> b_header b = b_header b' -> wf_block b = true -> wf_block b' = true -> b = b'.
  Proof using blake_inj.
    intros [sample E] [sample' E'] Hh Hwf Hwf'.
    apply wf_block_parts in Hwf as (_ & _ & _ & Htxs). apply wf_block_parts in Hwf' as (_ & _ & _ & Htxs').
    apply block_ext; [rewrite Hh; done | rewrite Hh; done |].
    rewrite Hh, E' in E. injection E as Hsh Hsample Hbh.
    apply blake_inj in Hbh. rewrite Hsh, Hsample in Hbh.
    apply app_inv_head, app_inv_head in Hbh.
    symmetry. apply enc_txs_inj; done.
  Qed.

  Theorem same_summary_and_evidence_same_txs s b b' now now' s1 s2 :
    accepted s b now s1 -> accepted s b' now' s2 -> FV P b -> FV P b' ->
    b_header b = b_header b' -> wf_block b = true -> wf_block b' = true -> b = b'.
  Proof using blake_inj.
    intros H H' Hfv Hfv'. apply commits_same_header_same_txs; eapply accepted_commits; eassumption.
  Qed.

  (* the same, with the two blocks accepted against two arbitrary (possibly different) states *)
  Theorem same_summary_and_evidence_same_txs_any_state s s' b b' now now' s1 s2 :
    accepted s b now s1 -> accepted s' b' now' s2 -> FV P b -> FV P b' ->
    b_header b = b_header b' -> wf_block b = true -> wf_block b' = true -> b = b'.
  Proof using blake_inj.
    intros H H' Hfv Hfv'. apply commits_same_header_same_txs; eapply accepted_commits; eassumption.
  Qed.

  (* ---------------------------------------------------------------------------------------------------------- *)
  (* 4. (evidence, transactions) determine the summary: scrypt; no premise on the heights                         *)
  (* ---------------------------------------------------------------------------------------------------------- *)
  Lemma commits_same_evidence_same_summary b b' :
    commits b -> commits b' -> h_evidence (b_header b) = h_evidence (b_header b') ->
    wf_block b = true -> wf_block b' = true -> h_summary (b_header b) = h_summary (b_header b').
  Proof using scrypt_inj.
    intros [sample E] [sample' E'] Hev Hwf Hwf'.
    apply wf_block_parts in Hwf as (Hsm & _). apply wf_block_parts in Hwf' as (Hsm' & _).
    rewrite Hev, E' in E. injection E as Hsh _ _.
    unfold summary_hash_of in Hsh. apply scrypt_inj in Hsh.
    apply app_inv_tail_length in Hsh as [Henc _]; [|rewrite !be_enc_length; done].
    symmetry. apply enc_summary_inj; done.
  Qed.

  Theorem same_evidence_and_txs_same_summary s b b' now now' s1 s2 :
    accepted s b now s1 -> accepted s b' now' s2 -> FV P b -> FV P b' ->
    h_evidence (b_header b) = h_evidence (b_header b') -> b_txs b = b_txs b' ->
    wf_block b = true -> wf_block b' = true -> b = b'.
  Proof using scrypt_inj.
    intros H H' Hfv Hfv' Hev Htx Hwf Hwf'. apply block_ext; [|done|done].
    apply commits_same_evidence_same_summary; try done; eapply accepted_commits; eassumption.
  Qed.

  Theorem same_evidence_and_txs_same_summary_any_state s s' b b' now now' s1 s2 :
    accepted s b now s1 -> accepted s' b' now' s2 -> FV P b -> FV P b' ->
    h_evidence (b_header b) = h_evidence (b_header b') -> b_txs b = b_txs b' ->
    wf_block b = true -> wf_block b' = true -> b = b'.
  Proof using scrypt_inj.
    intros H H' Hfv Hfv' Hev Htx Hwf Hwf'. apply block_ext; [|done|done].
    apply commits_same_evidence_same_summary; try done; eapply accepted_commits; eassumption.
  Qed.

  (* ---------------------------------------------------------------------------------------------------------- *)
  (* 5. the id determines the block: sha (id -> header) and blake (header -> transactions)                         *)
  (* ---------------------------------------------------------------------------------------------------------- *)
  Lemma same_id_same_header b b' :
    wf_block b = true -> wf_block b' = true -> block_id sha b = block_id sha b' -> b_header b = b_header b'.
  Proof using sha_inj.
    intros Hwf Hwf' Hid.
    apply wf_block_parts in Hwf as (_ & _ & Hh & _). apply wf_block_parts in Hwf' as (_ & _ & Hh' & _).
    unfold block_id, header_id in Hid. apply sha_inj in Hid. apply enc_header_inj; done.
  Qed.

  Theorem same_id_same_block s b b' now now' s1 s2 :
    accepted s b now s1 -> accepted s b' now' s2 -> FV P b -> FV P b' ->
    wf_block b = true -> wf_block b' = true -> block_id sha b = block_id sha b' -> b = b'.
  Proof using sha_inj blake_inj.
    intros H H' Hfv Hfv' Hwf Hwf' Hid.
    eapply same_summary_and_evidence_same_txs; try eassumption. apply same_id_same_header; done.
  Qed.

  Theorem same_id_same_block_any_state s s' b b' now now' s1 s2 :
    accepted s b now s1 -> accepted s' b' now' s2 -> FV P b -> FV P b' ->
    wf_block b = true -> wf_block b' = true -> block_id sha b = block_id sha b' -> b = b'.
  Proof using sha_inj blake_inj.
    intros H H' Hfv Hfv' Hwf Hwf' Hid.
    eapply same_summary_and_evidence_same_txs_any_state; try eassumption. apply same_id_same_header; done.
  Qed.

  (* ---------------------------------------------------------------------------------------------------------- *)
  (* 6. the combined statement: two acceptable blocks agreeing on two of the three components are equal            *)
  (* ---------------------------------------------------------------------------------------------------------- *)
  Definition agree_on_two (b b' : block) : Prop :=
    (h_summary (b_header b) = h_summary (b_header b') /\ b_txs b = b_txs b') \/
    (h_summary (b_header b) = h_summary (b_header b') /\ h_evidence (b_header b) = h_evidence (b_header b')) \/
    (h_evidence (b_header b) = h_evidence (b_header b') /\ b_txs b = b_txs b').

  Theorem tamper_one_component s b b' now now' s1 s2 :
    accepted s b now s1 -> accepted s b' now' s2 -> FV P b -> FV P b' ->
    wf_block b = true -> wf_block b' = true -> agree_on_two b b' -> b = b'.
  Proof using scrypt_inj blake_inj.
    intros H H' Hfv Hfv' Hwf Hwf' [[Hsm Htx] | [[Hsm Hev] | [Hev Htx]]].
    - eapply evidence_is_function; eassumption.
    - eapply same_summary_and_evidence_same_txs; try eassumption.
      destruct (b_header b) as [sm ev], (b_header b') as [sm' ev']; cbn [h_summary h_evidence] in *; congruence.
    - eapply same_evidence_and_txs_same_summary; eassumption.
  Qed.

  (* contrapositive reading: a block that differs from an accepted one in exactly one component is not accepted *)
  Corollary tampered_component_rejected s b b' now now' s1 :
    accepted s b now s1 -> FV P b -> FV P b' -> wf_block b = true -> wf_block b' = true ->
    agree_on_two b b' -> b <> b' -> forall s2, add_block sha scrypt blake verify P s b' now' <> Ok s2.
  Proof using scrypt_inj blake_inj.
    intros H Hfv Hfv' Hwf Hwf' Hag Hne s2 H'. apply Hne. eapply tamper_one_component; eassumption.
  Qed.
End Tamper.

(* ------------------------------------------------------------------------------------------------------------ *)
(* 7. byte-level bridge (no hash functions): decoded blocks are well formed, and two different byte strings that   *)
(*    both decode completely are two different blocks (each block has exactly one accepted encoding)               *)
(* ------------------------------------------------------------------------------------------------------------ *)

Theorem decoded_blocks_wf (bs : bytes) (b : block) (r : bytes) :
  bytes_wf bs -> dec_block bs = Some (b, r) -> wf_block b = true.
Proof. intros Hwf H. apply (dec_block_wf _ _ _ Hwf H). Qed.

Theorem distinct_bytes_distinct_blocks (bs bs' : bytes) (b b' : block) :
  bytes_wf bs -> bytes_wf bs' -> dec_block bs = Some (b, []) -> dec_block bs' = Some (b', []) ->
  bs <> bs' -> b <> b'.
Proof.
  intros Hwf Hwf' H H' Hne Heq. apply Hne.
  rewrite <- (dec_block_canonical _ _ _ Hwf H), <- (dec_block_canonical _ _ _ Hwf' H'), Heq. done.
Qed.

(* both together: of two different byte strings whose decoded blocks agree on two of the three components, at most
   one is acceptable against a given state *)
Corollary tampered_bytes_rejected
    (sha scrypt blake : bytes -> bytes) (verify : bytes -> bytes -> bytes -> N) (P : cparams)
    (scrypt_inj : forall a b : bytes, scrypt a = scrypt b -> a = b)
    (blake_inj : forall a b : bytes, blake a = blake b -> a = b)
    (s : cstate) (bs bs' : bytes) (b b' : block) (now now' : N) (s1 : cstate) :
  bytes_wf bs -> bytes_wf bs' -> dec_block bs = Some (b, []) -> dec_block bs' = Some (b', []) -> bs <> bs' ->
  add_block sha scrypt blake verify P s b now = Ok s1 -> FV P b -> FV P b' -> agree_on_two b b' ->
  forall s2, add_block sha scrypt blake verify P s b' now' <> Ok s2.
Proof.
  intros Hwf Hwf' Hd Hd' Hne H Hfv Hfv' Hag.
  apply (tampered_component_rejected sha scrypt blake verify P scrypt_inj blake_inj s b b' now now' s1 H Hfv Hfv'
           (decoded_blocks_wf _ _ _ Hwf Hd) (decoded_blocks_wf _ _ _ Hwf' Hd') Hag
           (distinct_bytes_distinct_blocks _ _ _ _ Hwf Hwf' Hd Hd' Hne)).
Qed.

(* ------------------------------------------------------------------------------------------------------------ *)
(* statements after the Section closed, and their assumptions                                                     *)
(* ------------------------------------------------------------------------------------------------------------ *)
