(* Catch-up of a FORKED requester that is strictly behind, over model/Sync.v (Section CatchUp).

   `catch_up batch main height_of fuel rc` is the list of ids the requester (chain `rc`, ids by height, genesis first)
   is told about by a server with active chain `main`: the first reply answers the block locator of rc; every non-empty
   reply is followed by a request whose only start hash is the LAST id of that reply, until an empty reply arrives (or
   `fuel` follow-up requests have been made).

   SETTING (Section CatchUpProofs).  main = common ++ rest, rc = common ++ side, common <> [] (shared prefix, genesis
   included; the fork point is the last element of common; side = [] is the linear case); height_of is consistent with
   main; every id of `side` is off the server's active chain and is either unknown to the server or known to it at a
   height strictly below the server's head height; the requester is strictly behind (length rc < length main);
   0 < batch.

   RESULTS.  The first reply starts at a height st with 1 <= st <= length common (first_reply_start); every follow-up
   request [last id] is answered with the next min(batch, remaining) ids of main (follow_progress); the told list
   has the closed form   firstn (min ((fuel+1)*batch) (length main - st)) (skipn st main)   (catch_up_closed); hence
   with enough fuel it is skipn st main = (the part of common from height st on) ++ rest, which contains every id of
   `rest` (catch_up_covers), and it never contains anything that is not on main, is in height order and has no gaps
   (catch_up_only_main, catch_up_contiguous).

   NOT COVERED by any theorem of this file:
   - a requester whose chain is as long as or longer than the server's (length rc >= length main): the property
     "the requester is told about the rest of main" is then not required (no switch is required), and in the model
     the requester's tip, if the server stores it, is at height >= head height, which triggers the empty "no new info"
     reply (SyncProofs.side_branch_tip_silences);
   - side-branch ids that the server knows AT OR ABOVE its head height: the scan stops at such an id with the empty
     "no new info" reply before it reaches any common ancestor (SyncProofs.side_branch_tip_silences;
     ex_side_at_head_silences below shows what `catch_up` computes then: nothing).  If the server's height_of
     agrees with the position of the ids in rc this cannot happen for a strictly shorter requester
     (see catch_up_covers_positional);
   - more than two nodes, a server whose chain changes during the exchange, lost / reordered / duplicated messages,
     invalid blocks, and what the requester does with the ids it was told about (fetching the blocks, the reorg).

   Stdlib style only. *)
From Coq Require Import NArith ZArith List Bool Arith Lia.
From Coq Require Import ZifyBool ZifyN ZifyNat.
From SkV Require Import Sync SyncProofs SyncRoundProofs.
Import ListNotations.
Open Scope N_scope.
Ltac Zify.zify_post_hook ::= Z.to_euclidean_division_equations.

(* ------------------------------------------------------------------ *)
(* generic list facts                                                   *)
(* ------------------------------------------------------------------ *)

Lemma cu_skipn_skipn {A} a b (l : list A) : skipn a (skipn b l) = skipn (b + a) l.
Proof.
  revert l. induction b as [|b IH]; intros l; [reflexivity|].
  destruct l as [|x l]; [destruct a; reflexivity|]. cbn [skipn Nat.add]. apply IH.
Qed.

Lemma cu_firstn_add {A} n m (l : list A) : firstn (n + m) l = firstn n l ++ firstn m (skipn n l).
Proof.
  revert l. induction n as [|n IH]; intros l; [reflexivity|].
  destruct l as [|x l]; [cbn; rewrite firstn_nil; reflexivity|].
  cbn [Nat.add firstn skipn app]. f_equal. apply IH.
Qed.

Lemma cu_rev_last {A} (l : list A) d : l <> [] -> exists t, rev l = last l d :: t.
Proof.
  intros H. exists (rev (removelast l)).
  rewrite (app_removelast_last d H) at 1. rewrite rev_app_distr. reflexivity.
Qed.

Lemma cu_firstn_in {A} n (l : list A) x : In x (firstn n l) -> In x l.
Proof. intros H. rewrite <- (firstn_skipn n l). apply in_or_app. left. exact H. Qed.

Lemma cu_skipn_in {A} n (l : list A) x : In x (skipn n l) -> In x l.
Proof. intros H. rewrite <- (firstn_skipn n l). apply in_or_app. right. exact H. Qed.

Lemma cu_length_pos {A} (l : list A) : l <> [] -> (1 <= length l)%nat.
Proof. destruct l; [congruence|cbn; lia]. Qed.

(* every announced id is an id of the requester's chain, at some position *)
Lemma locator_ids_in rc s : In s (locator_ids rc) -> exists p, nth_error rc p = Some s.
Proof.
  unfold locator_ids. rewrite in_flat_map. intros (h & _ & Hin).
  destruct (nth_error rc (N.to_nat h)) as [i|] eqn:E; [|destruct Hin].
  destruct Hin as [<-|[]]. exists (N.to_nat h). exact E.
Qed.

(* ------------------------------------------------------------------ *)
(* follow: one step                                                     *)
(* ------------------------------------------------------------------ *)

Section FollowStep.
  Variable batch : N.
  Variable main : list N.
  Variable height_of : N -> option N.
  Notation serve := (serve batch main height_of).
  Notation follow := (follow batch main height_of).

  Lemma follow_stop k r acc : r <> [] -> serve [last r 0] = [] -> follow (S k) r acc = acc.
  Proof.
    intros Hr He. cbn [Sync.follow]. destruct (cu_rev_last r 0 Hr) as [t ->]. rewrite He. reflexivity.
  Qed.

  Lemma follow_step k r acc :
    r <> [] -> serve [last r 0] <> [] ->
    follow (S k) r acc = follow k (serve [last r 0]) (acc ++ serve [last r 0]).
  Proof.
    intros Hr He. cbn [Sync.follow]. destruct (cu_rev_last r 0 Hr) as [t ->].
    destruct (serve [last r 0]) as [|a u]; [congruence|reflexivity].
  Qed.
End FollowStep.

(* ------------------------------------------------------------------ *)
(* the forked, strictly shorter requester                               *)
(* ------------------------------------------------------------------ *)

Section CatchUpProofs.
  Variable batch : N.
  Variable main : list N.
  Variable height_of : N -> option N.
  Variables common rest side : list N.
  Variable rc : list N.

  Hypothesis Hb : 0 < batch.
  Hypothesis Hmain : main = common ++ rest.
  Hypothesis Hrc : rc = common ++ side.
  Hypothesis Hcommon : common <> [].
  Hypothesis Hcons : forall i h, nth_error main (N.to_nat h) = Some i -> height_of i = Some h.
  Hypothesis Hside : forall x, In x side ->
    ~ In x main /\ (height_of x = None \/ exists hx, height_of x = Some hx /\ hx < head_height main).
  Hypothesis Hbehind : (length rc < length main)%nat.

  Notation serve := (serve batch main height_of).
  Notation scan := (scan main height_of).
  Notation follow := (follow batch main height_of).
  Notation catch_up := (catch_up batch main height_of).
  Notation start_of := (start_of main height_of).
  Notation reply_len := (reply_len main batch).

  Let L := length main.
  Let B := N.to_nat batch.

  Lemma cu_common_pos : (1 <= length common)%nat.
  Proof. apply cu_length_pos. exact Hcommon. Qed.

  Lemma cu_main_ne : main <> [].
  Proof. rewrite Hmain. intros E. apply app_eq_nil in E. destruct E as [E _]. exact (Hcommon E). Qed.

  (* the fork point is strictly below the server's head *)
  Lemma cu_common_lt_main : (length common < length main)%nat.
  Proof. pose proof Hbehind as H. rewrite Hrc, app_length in H. lia. Qed.

  Lemma cu_L : L = (length common + length rest)%nat.
  Proof. unfold L. rewrite Hmain at 1. apply app_length. Qed.

  Lemma cu_rest_ne : rest <> [].
  Proof.
    pose proof cu_common_lt_main. pose proof cu_L. unfold L in *. intros ->. cbn [length] in *. lia.
  Qed.

  Lemma cu_head_height : head_height main = N.of_nat L - 1.
  Proof. reflexivity. Qed.

  (* skippability of the requester's side-branch ids, in the sense of SyncProofs *)
  Lemma side_skippable x : In x side -> skippable main height_of x.
  Proof.
    intros Hx. apply (skippable_iff main height_of cu_main_ne Hcons).
    destruct (Hside x Hx) as [Hnot [Hn|(hx & Hh & Hlt)]]; [left; exact Hn|].
    right. exists hx. auto.
  Qed.

  (* an announced id is an id of side, or the id of common (= of main) at some position below length common *)
  Lemma locator_split s :
    In s (locator_ids rc) ->
    In s side \/ exists p, (p < length common)%nat /\ nth_error main p = Some s.
  Proof.
    intros Hin. destruct (locator_ids_in rc s Hin) as [p Hp]. rewrite Hrc in Hp.
    destruct (Nat.lt_ge_cases p (length common)) as [Hlt|Hge].
    - right. exists p. split; [exact Hlt|]. rewrite Hmain. rewrite nth_error_app1 in * by exact Hlt. exact Hp.
    - left. rewrite nth_error_app2 in Hp by exact Hge. eapply nth_error_In; exact Hp.
  Qed.

  (* an announced id of common is a hit (on main, below the head) *)
  Lemma common_hit p s :
    (p < length common)%nat -> nth_error main p = Some s -> hit main height_of s (N.of_nat p).
  Proof.
    intros Hp Hn. pose proof cu_common_lt_main.
    apply (hit_iff main height_of cu_main_ne Hcons). split; [|split].
    - apply Hcons. rewrite Nat2N.id. exact Hn.
    - eapply nth_error_In; exact Hn.
    - unfold head_height. lia.
  Qed.

  (* the start height used for the first reply *)
  Definition st0 : N := start_of (locator_ids rc).

  (* 1 *)
  Theorem first_reply_start :
    scan (locator_ids rc) <> Some None /\
    1 <= st0 /\ st0 <= N.of_nat (length common) /\
    serve (locator_ids rc) = firstn (reply_len st0) (skipn (N.to_nat st0) main) /\
    (1 <= reply_len st0)%nat /\
    serve (locator_ids rc) <> [] /\
    (* where the start comes from: no announced id on main -> 1; else first announced id on main, which is on common *)
    (st0 = 1 \/ exists s, In s (locator_ids rc) /\ In s common /\ nth_error main (N.to_nat (st0 - 1)) = Some s).
  Proof.
    pose proof cu_common_pos as Hcp. pose proof cu_common_lt_main as Hcl.
    assert (Hsc : scan (locator_ids rc) <> Some None).
    { intros E. apply scan_silent_iff in E. destruct E as (p & s & suf & hs & Heq & _ & Hh & Hnone).
      apply (main_at_none_iff main height_of cu_main_ne) in Hnone.
      assert (Hin : In s (locator_ids rc)) by (rewrite Heq; apply in_or_app; right; left; reflexivity).
      destruct (locator_split s Hin) as [Hs|(q & Hq & Hn)].
      - destruct (Hside s Hs) as [_ [Hn|(hx & Hh' & Hlt)]]; [congruence|].
        assert (hx = hs) by congruence. lia.
      - destruct (common_hit q s Hq Hn) as (Hh' & _ & _).
        assert (hs = N.of_nat q) by congruence. unfold head_height in Hnone. lia. }
    assert (Hst : 1 <= st0 <= N.of_nat (length common) /\
                  (st0 = 1 \/ exists s, In s (locator_ids rc) /\ In s common /\
                                        nth_error main (N.to_nat (st0 - 1)) = Some s)).
    { unfold st0, SyncProofs.start_of.
      destruct (scan (locator_ids rc)) as [[st|]|] eqn:E; [|congruence|split; [lia|left; reflexivity]].
      apply scan_hit_iff in E. destruct E as (p & s & suf & hs & Heq & _ & Hh & Hm & _ & ->).
      assert (Hin : In s (locator_ids rc)) by (rewrite Heq; apply in_or_app; right; left; reflexivity).
      destruct (locator_split s Hin) as [Hs|(q & Hq & Hn)].
      - exfalso. destruct (Hside s Hs) as [Hnot _]. apply Hnot. eapply nth_error_In; exact Hm.
      - destruct (common_hit q s Hq Hn) as (Hh' & _ & _).
        assert (hs = N.of_nat q) by congruence. subst hs. split; [lia|]. right. exists s.
        split; [exact Hin|]. split.
        + rewrite Hmain in Hn. rewrite nth_error_app1 in Hn by exact Hq. eapply nth_error_In; exact Hn.
        + replace (N.to_nat (N.of_nat q + 1 - 1)) with q by lia. exact Hn. }
    destruct Hst as [[Hst1 Hst2] Horigin].
    assert (Hrl : (1 <= reply_len st0)%nat) by (unfold SyncProofs.reply_len, head_height; lia).
    assert (Hspec : serve (locator_ids rc) = firstn (reply_len st0) (skipn (N.to_nat st0) main)).
    { rewrite (serve_spec main height_of cu_main_ne batch). fold st0.
      destruct (scan (locator_ids rc)) as [[st|]|]; congruence. }
    split; [exact Hsc|]. split; [exact Hst1|]. split; [exact Hst2|]. split; [exact Hspec|].
    split; [exact Hrl|]. split; [|exact Horigin].
    intros E.
    assert (Hl : length (serve (locator_ids rc)) = reply_len st0)
      by (apply (serve_length main height_of cu_main_ne batch); exact Hsc).
    rewrite E in Hl. cbn [length] in Hl. lia.
  Qed.

  (* 2 : a follow-up request [x] where x is the active block at height h.
     Below the head: x is a hit at h and the reply is the next min(batch, remaining) ids of main, non-empty, and it
     ends at height min (h + batch) head.  At the head: the reply is empty. *)
  Theorem follow_progress x h :
    main_at main h = Some x -> h < head_height main ->
    start_of [x] = h + 1 /\
    serve [x] = firstn (reply_len (h + 1)) (skipn (N.to_nat (h + 1)) main) /\
    reply_len (h + 1) = Nat.min (N.to_nat batch) (length main - N.to_nat (h + 1)) /\
    serve [x] <> [] /\
    main_at main (N.min (h + batch) (head_height main)) = Some (last (serve [x]) 0).
  Proof. clear Hside Hbehind Hrc.
    intros Hm Hlt.
    assert (Hh : height_of x = Some h) by (apply Hcons; exact Hm).
    destruct (serve_progress_first main height_of cu_main_ne Hcons batch [] x [] h Hb (Forall_nil _) Hh Hm Hlt)
      as (Hne & Hst & _ & Hlast & _).
    cbn [app] in Hne, Hst, Hlast.
    split; [exact Hst|]. split.
    - rewrite (serve_spec main height_of cu_main_ne batch). rewrite Hst.
      destruct (SyncProofs.scan_decompose main height_of [x]) as [[_ E]|_]; [rewrite E; reflexivity|].
      destruct (Sync.scan main height_of [x]) as [[s|]|] eqn:E; try reflexivity.
      exfalso. apply Hne. rewrite (serve_spec main height_of cu_main_ne batch), E. reflexivity.
    - split; [unfold SyncProofs.reply_len, head_height; lia|]. split; [exact Hne|exact Hlast].
  Qed.

  Theorem follow_at_head x : main_at main (head_height main) = Some x -> serve [x] = [].
  Proof.
    intros Hm. exact (serve_head_silent main height_of cu_main_ne Hcons batch [] x [] (Forall_nil _) Hm).
  Qed.

  (* closed form of `follow`: if the told list so far is the n >= 1 ids of main from height s on and the previous reply
     ends with the last of them, then `fuel` more requests extend it by fuel*batch ids, capped at the end of main *)
  Lemma follow_closed fuel : forall r n s,
    (1 <= n)%nat -> (s + n <= L)%nat -> r <> [] -> nth_error main (s + n - 1) = Some (last r 0) ->
    follow fuel r (firstn n (skipn s main)) = firstn (Nat.min (n + fuel * B) (L - s)) (skipn s main).
  Proof. clear Hside Hbehind Hrc.
    induction fuel as [|k IH]; intros r n s Hn Hsn Hr Hlast.
    - cbn [Sync.follow]. f_equal. lia.
    - destruct (Nat.eq_dec (s + n) L) as [Eq|Neq].
      + (* the previous reply ended at the head: empty reply, stop *)
        rewrite follow_stop; [f_equal; lia|exact Hr|].
        apply follow_at_head. unfold main_at, head_height. fold L.
        replace (N.to_nat (N.of_nat L - 1)) with (s + n - 1)%nat by lia. exact Hlast.
      + set (h := N.of_nat (s + n - 1)).
        assert (Hm : main_at main h = Some (last r 0)).
        { unfold main_at, h. rewrite Nat2N.id. exact Hlast. }
        assert (Hlt : h < head_height main) by (unfold head_height, h; fold L; lia).
        destruct (follow_progress (last r 0) h Hm Hlt) as (_ & Hsp & Hrl & Hne & Hl').
        rewrite follow_step by assumption.
        set (m := reply_len (h + 1)) in *.
        assert (Hh1 : N.to_nat (h + 1) = (s + n)%nat) by (unfold h; lia).
        rewrite Hh1 in Hsp, Hrl. fold L in Hrl.
        assert (Hacc : firstn n (skipn s main) ++ serve [last r 0] = firstn (n + m) (skipn s main)).
        { rewrite cu_firstn_add, cu_skipn_skipn, Hsp. reflexivity. }
        rewrite Hacc. rewrite IH; [f_equal; unfold B; nia|lia|lia|exact Hne|].
        unfold main_at in Hl'. rewrite <- Hl'. f_equal. unfold head_height, h. fold L. lia.
  Qed.

  (* exact value of the told list *)
  Theorem catch_up_closed fuel :
    catch_up fuel rc =
      firstn (Nat.min (S fuel * B) (L - N.to_nat st0)) (skipn (N.to_nat st0) main).
  Proof.
    destruct first_reply_start as (Hsc & H1 & H2 & Hspec & Hrl & Hne & _).
    pose proof cu_common_lt_main as Hcl. fold L in Hcl.
    unfold Sync.catch_up.
    assert (Hlen : reply_len st0 = Nat.min B (L - N.to_nat st0))
      by (unfold SyncProofs.reply_len, head_height, B, L; lia).
    set (r := serve (locator_ids rc)) in *.
    assert (Hlast : nth_error main (N.to_nat st0 + reply_len st0 - 1) = Some (last r 0)).
    { rewrite <- (last_nth_error r 0 Hne).
      assert (Hlr : length r = reply_len st0)
        by (apply (serve_length main height_of cu_main_ne batch); exact Hsc).
      rewrite Hlr. rewrite Hspec at 1. rewrite nth_error_firstn_lt by lia.
      rewrite nth_error_skipn_add. f_equal. lia. }
    rewrite Hspec at 2.
    rewrite (follow_closed fuel r (reply_len st0) (N.to_nat st0)); [f_equal; nia|lia|lia|exact Hne|exact Hlast].
  Qed.

  (* the part of main from the start height on = the tail of common from there on, then all of rest *)
  Lemma skipn_st0_main : skipn (N.to_nat st0) main = skipn (N.to_nat st0) common ++ rest.
  Proof.
    destruct first_reply_start as (_ & _ & H2 & _).
    rewrite Hmain at 1. rewrite skipn_app.
    replace (N.to_nat st0 - length common)%nat with 0%nat by lia. reflexivity.
  Qed.

  (* with enough fuel the told list is exactly main from the start height on *)
  Theorem catch_up_full fuel :
    (L <= N.to_nat st0 + S fuel * B)%nat ->
    catch_up fuel rc = skipn (N.to_nat st0) common ++ rest.
  Proof.
    intros Hf. rewrite catch_up_closed, <- skipn_st0_main.
    apply firstn_all2. rewrite skipn_length. fold L. lia.
  Qed.

  Corollary catch_up_full_length_main : catch_up (length main) rc = skipn (N.to_nat st0) common ++ rest.
  Proof.
    apply catch_up_full. fold L. assert (1 <= B)%nat by (unfold B; lia). nia.
  Qed.

  (* 3a : every block of the server's active chain above the fork point is told to the requester *)
  Theorem catch_up_covers : exists fuel, forall i, In i rest -> In i (catch_up fuel rc).
  Proof.
    exists (length main). intros i Hi. rewrite catch_up_full_length_main. apply in_or_app. right. exact Hi.
  Qed.

  (* the same with the explicit bound, and monotone in the fuel *)
  Theorem catch_up_covers_fuel fuel :
    (length main <= N.to_nat st0 + S fuel * N.to_nat batch)%nat ->
    forall i, In i rest -> In i (catch_up fuel rc).
  Proof.
    intros Hf i Hi. rewrite catch_up_full by exact Hf. apply in_or_app. right. exact Hi.
  Qed.

  (* 3b : the told list is a gap-free, height-ordered segment of main starting at height st0 <= length common ... *)
  Theorem catch_up_contiguous fuel :
    exists n, catch_up fuel rc = firstn n (skipn (N.to_nat st0) main) /\
              forall k, (k < n)%nat -> (N.to_nat st0 + k < length main)%nat ->
                        nth_error (catch_up fuel rc) k = nth_error main (N.to_nat st0 + k).
  Proof.
    eexists. split; [apply catch_up_closed|]. intros k Hk _. rewrite catch_up_closed.
    rewrite nth_error_firstn_lt by exact Hk. apply nth_error_skipn_add.
  Qed.

  (* ... in particular the requester is never told about anything off the server's active chain *)
  Theorem catch_up_only_main fuel i : In i (catch_up fuel rc) -> In i main.
  Proof.
    rewrite catch_up_closed. intros H. apply cu_firstn_in in H. apply cu_skipn_in in H. exact H.
  Qed.

  (* stored prefix + told ids = the complete active chain of the server (up to the overlap common[st0..]) *)
  Corollary catch_up_completes :
    firstn (N.to_nat st0) common ++ catch_up (length main) rc = main.
  Proof.
    rewrite catch_up_full_length_main, app_assoc, firstn_skipn. symmetry. exact Hmain.
  Qed.
End CatchUpProofs.

(* ------------------------------------------------------------------ *)
(* the same with a more natural hypothesis on the side branch           *)
(* ------------------------------------------------------------------ *)

(* If the server's height_of, where defined on an id of the requester's side branch, agrees with the position of that
   id in the requester's chain (as it does when both nodes compute heights from the same parent links), then the
   "known below the head" hypothesis follows from "strictly behind". *)
Theorem catch_up_covers_positional batch main height_of common rest side :
  0 < batch -> main = common ++ rest -> common <> [] ->
  (forall i h, nth_error main (N.to_nat h) = Some i -> height_of i = Some h) ->
  (forall x, In x side -> ~ In x main) ->
  (forall p x, nth_error (common ++ side) p = Some x -> height_of x = None \/ height_of x = Some (N.of_nat p)) ->
  (length (common ++ side) < length main)%nat ->
  forall i, In i rest -> In i (catch_up batch main height_of (length main) (common ++ side)).
Proof.
  intros Hb Hmain Hcommon Hcons Hoff Hpos Hbehind i Hi.
  assert (Hside : forall x, In x side ->
            ~ In x main /\ (height_of x = None \/ exists hx, height_of x = Some hx /\ hx < head_height main)).
  { intros x Hx. split; [apply Hoff; exact Hx|].
    apply In_nth_error in Hx. destruct Hx as [q Hq].
    assert (Hq' : nth_error (common ++ side) (length common + q) = Some x).
    { rewrite nth_error_app2 by lia. replace (length common + q - length common)%nat with q by lia. exact Hq. }
    assert (Hql : (q < length side)%nat) by (apply nth_error_Some; congruence).
    destruct (Hpos _ _ Hq') as [Hn|Hs]; [left; exact Hn|].
    right. eexists. split; [exact Hs|]. rewrite app_length in Hbehind. unfold head_height. lia. }
  rewrite (catch_up_full_length_main batch main height_of common rest side (common ++ side)
             Hb Hmain eq_refl Hcommon Hcons Hside Hbehind).
  apply in_or_app. right. exact Hi.
Qed.

(* ------------------------------------------------------------------ *)
(* 4 : non-vacuity                                                      *)
(* ------------------------------------------------------------------ *)

(* ibd_main = [100; ...; 109], ibd_height_of = heights of exactly these ids (SyncRoundProofs) *)
Definition cu_rc : list N := [100; 101; 201; 202].

Example ex_cu_locator : locator_ids cu_rc = [202; 201; 101; 100].
Proof. vm_compute. reflexivity. Qed.

Example ex_cu_first_reply : serve 3 ibd_main ibd_height_of (locator_ids cu_rc) = [102; 103; 104].
Proof. vm_compute. reflexivity. Qed.

Example ex_cu_catch_up :
  catch_up 3 ibd_main ibd_height_of 10 cu_rc = [102; 103; 104; 105; 106; 107; 108; 109].
Proof. vm_compute. reflexivity. Qed.

(* fuel matters: with one follow-up request only the first two batches have arrived *)
Example ex_cu_catch_up_fuel1 :
  catch_up 3 ibd_main ibd_height_of 1 cu_rc = [102; 103; 104; 105; 106; 107].
Proof. vm_compute. reflexivity. Qed.

(* the hypotheses of the section are satisfiable: the same fact from the general theorem *)
Lemma ex_cu_side : forall x, In x [201; 202] ->
  ~ In x ibd_main /\ (ibd_height_of x = None \/ exists hx, ibd_height_of x = Some hx /\ hx < head_height ibd_main).
Proof.
  intros x [<-|[<-|[]]]; (split; [|left; vm_compute; reflexivity]);
    intros H; cbn in H; repeat (destruct H as [H|H]; [discriminate H|]); exact H.
Qed.

Example ex_cu_covers_thm :
  forall i, In i [102; 103; 104; 105; 106; 107; 108; 109] -> In i (catch_up 3 ibd_main ibd_height_of 10 cu_rc).
Proof.
  apply (catch_up_covers_fuel 3 ibd_main ibd_height_of [100; 101] [102; 103; 104; 105; 106; 107; 108; 109]
           [201; 202] cu_rc); try reflexivity; try discriminate.
  - exact ibd_cons.
  - exact ex_cu_side.
  - cbn; lia.
  - vm_compute. lia.
Qed.

Example ex_cu_closed_thm :
  catch_up 3 ibd_main ibd_height_of 10 cu_rc = skipn 2 [100; 101] ++ [102; 103; 104; 105; 106; 107; 108; 109].
Proof.
  change 2%nat with (N.to_nat (st0 ibd_main ibd_height_of cu_rc)).
  apply (catch_up_full 3 ibd_main ibd_height_of [100; 101] [102; 103; 104; 105; 106; 107; 108; 109]
           [201; 202] cu_rc); try reflexivity; try discriminate.
  - exact ibd_cons.
  - exact ex_cu_side.
  - cbn; lia.
  - vm_compute. lia.
Qed.

(* a side branch that the server DOES store, below its head (201 at height 2, 202 at height 3): same outcome *)
Definition cu_height_of2 (i : N) : option N :=
  if i =? 201 then Some 2 else if i =? 202 then Some 3 else ibd_height_of i.

Example ex_cu_known_side :
  catch_up 3 ibd_main cu_height_of2 10 cu_rc = [102; 103; 104; 105; 106; 107; 108; 109].
Proof. vm_compute. reflexivity. Qed.

(* a deep fork: a 21-block requester chain that shares only genesis and block 101 with a 40-block server chain.  Its
   locator (heights 20..11 and 4) contains NO id of common, every announced id is unknown to the server, so the start
   height is 1 (the for/else default): the told list overlaps `common` (block 101 is told again) and then covers all
   of rest *)
Definition cu_long_main : list N := map N.of_nat (seq 100 40).
Definition cu_long_height_of (i : N) : option N :=
  if (100 <=? i) && (i <=? 139) then Some (i - 100) else None.
Definition cu_long_rc : list N := [100; 101] ++ map N.of_nat (seq 1000 19).

Example ex_cu_deep_fork :
  locator_ids cu_long_rc = map N.of_nat [1018; 1017; 1016; 1015; 1014; 1013; 1012; 1011; 1010; 1009; 1002]%nat
  /\ catch_up 16 cu_long_main cu_long_height_of 40 cu_long_rc = map N.of_nat (seq 101 39).
Proof. split; vm_compute; reflexivity. Qed.

(* 5 (illustration of what is NOT covered): the requester's side-branch tip 202 is known to the server at the
   server's head height 9 (hypothesis Hside violated; with height_of agreeing with positions this needs a requester
   that is not strictly behind): the scan stops there with the empty "no new info" reply and the requester is told
   nothing, although the common ancestors 101, 100 follow in the locator. *)
Definition cu_height_of3 (i : N) : option N := if i =? 202 then Some 9 else ibd_height_of i.

Example ex_side_at_head_silences : catch_up 3 ibd_main cu_height_of3 10 cu_rc = [].
Proof. vm_compute. reflexivity. Qed.

