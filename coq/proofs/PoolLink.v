(* Link between the abstract pending pool of the node state machine (NodeModel / NodeProofs: ids in N, the invariant
   PoolInv) and the concrete pool premises of AssemblyProofs.assembly_valid (lists of transactions).
   The abstract parameters tx_valid_at / tx_conflict are instantiated with the real in-state validator and with
   "the two transactions share a spent reference"; the invariant then yields exactly the four pool premises. *)
From stdpp Require Import gmap.
From Coq Require Import NArith ZArith Lia.
From SkV Require Import Bytes Vlq Codec Merkle Ledger ChainState Pow Validate ChainDefs NodeModel.
From SkV Require Import BalanceProofs ValidProofs NodeProofs AssemblyProofs.

Local Open Scope N_scope.

(* ------------------------------------------------------------------------------------------------------------ *)
(* List lemmas                                                                                                  *)
(* ------------------------------------------------------------------------------------------------------------ *)

(* two lists have no common element *)
Definition disjoint_lists {A} (l1 l2 : list A) : Prop := ∀ x, x ∈ l1 → x ∉ l2.

Lemma ForallOrdPairs_cons_inv {A} (R : A → A → Prop) (a : A) (l : list A) :
  ForallOrdPairs R (a :: l) ↔ Forall (R a) l ∧ ForallOrdPairs R l.
Proof.
  split.
  - intros H. by inversion H; subst.
  - intros [H1 H2]. by constructor.
Qed.

Lemma disjoint_concat {A} (l : list A) (ls : list (list A)) :
  disjoint_lists l (concat ls) ↔ Forall (disjoint_lists l) ls.
Proof.
  unfold disjoint_lists. induction ls as [|k ls IH]; cbn [concat].
  - split; [constructor|]. intros _ x _. apply not_elem_of_nil.
  - rewrite Forall_cons, <- IH. split.
    + intros H. split; intros x Hx Hk; apply (H x Hx), elem_of_app; auto.
    + intros [H1 H2] x Hx [Hk|Hk]%elem_of_app; [by apply (H1 x)|by apply (H2 x)].
Qed.

(* NoDup of a concatenation: every piece is duplicate free and the pieces are pairwise disjoint (in order) *)
Lemma NoDup_concat {A} (ls : list (list A)) :
  NoDup (concat ls) ↔ Forall NoDup ls ∧ ForallOrdPairs disjoint_lists ls.
Proof.
  induction ls as [|l ls IH]; cbn [concat].
  - split; [intros _; split; constructor|intros _; constructor].
  - rewrite NoDup_app, Forall_cons, ForallOrdPairs_cons_inv, IH.
    fold (disjoint_lists l (concat ls)). rewrite disjoint_concat. tauto.
Qed.

Lemma ForallOrdPairs_map {A B} (f : A → B) (R : A → A → Prop) (R' : B → B → Prop) (l : list A) :
  (∀ a b, R a b → R' (f a) (f b)) → ForallOrdPairs R l → ForallOrdPairs R' (map f l).
Proof.
  intros Himp. induction l as [|a l IH]; cbn [map]; [constructor|].
  intros [H1 H2]%ForallOrdPairs_cons_inv. apply ForallOrdPairs_cons_inv. split; [|by apply IH].
  clear IH H2. induction H1; cbn [map]; constructor; auto.
Qed.

Lemma Forall_map_iff {A B} (f : A → B) (Q : B → Prop) (l : list A) :
  Forall Q (map f l) ↔ Forall (λ a, Q (f a)) l.
Proof.
  induction l as [|a l IH]; cbn [map]; [split; constructor|]. by rewrite !Forall_cons, IH.
Qed.

Lemma NoDup_map_inj_on {A B} (f : A → B) (l : list A) :
  (∀ x y, x ∈ l → y ∈ l → f x = f y → x = y) → NoDup l → NoDup (map f l).
Proof.
  induction l as [|a l IH]; cbn [map]; intros Hinj Hnd; [constructor|].
  apply NoDup_cons in Hnd as [Ha Hnd]. apply NoDup_cons. split.
  - intros Hin. apply elem_of_list_In, in_map_iff in Hin as (y & Hy & Hin%elem_of_list_In).
    assert (y = a) as -> by (apply Hinj; [by right|by left|done]). done.
  - apply IH; [|done]. intros x y Hx Hy. apply Hinj; by right.
Qed.

(* ------------------------------------------------------------------------------------------------------------ *)
(* The concrete instance                                                                                        *)
(* ------------------------------------------------------------------------------------------------------------ *)

Section PoolLink.
  Variable sha : bytes → bytes.
  Variable scrypt : bytes → bytes.
  Variable blake : bytes → bytes.
  Variable verify : bytes → bytes → bytes → N.
  Variable P : cparams.
  Variable tx_of : N → tx.          (* the transaction an abstract id stands for *)
  Variable utxo_at : N → utxo.      (* the unspent set (ledger state) at a head id *)

  (* the real in-state validator, as the abstract "valid at this head" oracle *)
  Definition valid_at_real (h t : N) : bool :=
    match v_noncb_in_state verify (utxo_at h) (tx_of t) with Ok _ => true | Err _ => false end.

  (* the two transactions share a spent reference *)
  Definition conflict_real (a b : N) : bool :=
    existsb (λ r, bool_decide (r ∈ tx_refs (tx_of b))) (tx_refs (tx_of a)).

  Lemma valid_at_real_spec h t :
    valid_at_real h t = true ↔ v_noncb_in_state verify (utxo_at h) (tx_of t) = Ok tt.
  Proof.
    unfold valid_at_real. destruct (v_noncb_in_state verify (utxo_at h) (tx_of t)) as [[]|k]; split; done.
  Qed.

  Lemma conflict_real_true a b :
    conflict_real a b = true ↔ ∃ r, r ∈ tx_refs (tx_of a) ∧ r ∈ tx_refs (tx_of b).
  Proof.
    unfold conflict_real. rewrite existsb_exists. split.
    - intros (r & Hr%elem_of_list_In & Hb%bool_decide_eq_true). eauto.
    - intros (r & Hr%elem_of_list_In & Hb). exists r. split; [done|]. by apply bool_decide_eq_true.
  Qed.

  Lemma conflict_real_false a b :
    conflict_real a b = false ↔ disjoint_lists (tx_refs (tx_of a)) (tx_refs (tx_of b)).
  Proof.
    unfold disjoint_lists. rewrite <- not_true_iff_false, conflict_real_true. split.
    - intros H r Ha Hb. apply H. eauto.
    - intros H (r & Ha & Hb). by apply (H r).
  Qed.

  (* 1 *)
  Lemma conflict_real_sym a b : conflict_real a b = conflict_real b a.
  Proof.
    apply eq_true_iff_eq. rewrite !conflict_real_true. split; intros (r & H1 & H2); eauto.
  Qed.

  (* 2 *)
  Theorem pool_premises (s : nstate) :
    PoolInv valid_at_real conflict_real s →
    (* every pooled transaction passed the by-itself check when it was admitted *)
    Forall (λ t, v_noncb_by_itself P (tx_of t) = Ok tt) (ns_pool s) →
    (* abstract ids are the transaction ids: distinct abstract ids stand for transactions with distinct ids *)
    (∀ a b, In a (ns_pool s) → In b (ns_pool s) → tx_id sha (tx_of a) = tx_id sha (tx_of b) → a = b) →
    let others := map tx_of (ns_pool s) in
    Forall (λ t, v_noncb_by_itself P t = Ok tt) others ∧
    Forall (λ t, v_noncb_in_state verify (utxo_at (ns_head s)) t = Ok tt) others ∧
    nodup_keys [] (concat (map tx_refs others)) = true ∧
    nodup_bytes [] (map (tx_id sha) others) = true.
  Proof.
    intros (Hvalid & Hnd & Hconf) Hself Hinj others. subst others.
    split; [|split; [|split]].
    - by apply Forall_map_iff.
    - apply Forall_map_iff. eapply Forall_impl; [exact Hvalid|]. cbn beta. intros t Ht.
      by apply valid_at_real_spec.
    - apply nodup_keys_nil, NoDup_concat. split.
      + rewrite !Forall_map_iff. eapply Forall_impl; [exact Hself|]. cbn beta. intros t Ht.
        by apply v_noncb_by_itself_ok in Ht as (_ & _ & _ & Ht & _).
      + rewrite map_map. eapply ForallOrdPairs_map; [|exact Hconf].
        cbn beta. intros a b Hab. by apply conflict_real_false.
    - apply nodup_bytes_nil. rewrite map_map. apply NoDup_map_inj_on.
      + intros x y Hx%elem_of_list_In Hy%elem_of_list_In. by apply Hinj.
      + by apply NoDup_ListNoDup.
  Qed.

  (* 3: assembly_valid with its four pool premises replaced by the node's pool invariant *)
  Theorem assembly_from_pool_invariant (ns : nstate) s others pk ts data nonce b now cur prev u :
    construct_block_for_mining sha scrypt blake P s others pk ts data nonce = Some b →
    cs_cur s = Some cur → cs_blocks s !! cur = Some prev → cs_utxo s !! cur = Some u →
    is_zero32 cur = false →
    (* the node's pool invariant, for the concrete validators, and the tie between the two levels *)
    PoolInv valid_at_real conflict_real ns →
    Forall (λ t, v_noncb_by_itself P (tx_of t) = Ok tt) (ns_pool ns) →
    (∀ a b, In a (ns_pool ns) → In b (ns_pool ns) → tx_id sha (tx_of a) = tx_id sha (tx_of b) → a = b) →
    u = utxo_at (ns_head ns) →
    others = map tx_of (ns_pool ns) →
    (* sizes, clock, nonce, checkpoint horizon: as in assembly_valid *)
    N.of_nat (length (enc_block b)) <= p_max_block P → N.of_nat (length data) <= p_max_cbdata P →
    b_time prev < ts → ts <= now + p_max_future P →
    bytes_ltb (block_id sha b) (b_target b) = true → FV P b →
    ∃ s', add_block sha scrypt blake verify P s b now = Ok s'.
  Proof.
    intros Hcons Hcur Hprev Hu Hz Hinv Hself Hinj -> -> Hsize Hdata Htime Hfut Hpow Hfv.
    destruct (pool_premises ns Hinv Hself Hinj) as (H1 & H2 & H3 & H4).
    eapply assembly_valid; eauto.
  Qed.
End PoolLink.


(* The invariant is maintained by every step of the node for the concrete instance (the symmetry hypothesis of
   NodeProofs is discharged by conflict_real_sym). *)
Corollary pool_inv_step_real skip verify tx_of utxo_at s e s' o :
  PoolInv (valid_at_real verify tx_of utxo_at) (conflict_real tx_of) s →
  step skip (valid_at_real verify tx_of utxo_at) (conflict_real tx_of) s e = (s', o) →
  PoolInv (valid_at_real verify tx_of utxo_at) (conflict_real tx_of) s'.
Proof. apply pool_inv_step_strong. apply conflict_real_sym. Qed.
