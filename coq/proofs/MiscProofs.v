(* C18 (checkpoints / genesis) and the C02 <-> C16 link (the cumulative subsidy of the validation model never exceeds
   the documented maximum 2099999986350000).  std++ style throughout.

   PART 1  checkpoints: what v_block_in_state does at or below the checkpoint horizon; facts about the REGENERATED
           table Gen_Checkpoints.KNOWN_HASHES / MAX_KNOWN_HASH_HEIGHT and the regenerated genesis block bytes.
   PART 2  model subsidy = regenerated subsidy; cum P h <= 2099999986350000; supply_never_exceeds_max. *)
From stdpp Require Import gmap.
From Coq Require Import NArith ZArith Lia ZifyBool ZifyN ZifyNat.
From SkV Require Import Bytes Vlq Codec Merkle Ledger ChainState Pow Validate ChainDefs ValidProofs.
From SkV Require HeaderProofs.
From SkV Require Gen_Params Gen_Functions Gen_Checkpoints Subsidy SubsidyProofs Bridge_Subsidy Properties_C16.
Open Scope N_scope.

Ltac Zify.zify_post_hook ::= Z.to_euclidean_division_equations.

(* ====================================================================================================== *)
(* PART 1 : checkpoints (C18)                                                                               *)
(* ====================================================================================================== *)

(* ---- 1a. behaviour of v_block_in_state at or below the horizon ---- *)
Section Checkpoint.
  Variable sha : bytes -> bytes.
  Variable scrypt : bytes -> bytes.
  Variable blake : bytes -> bytes.
  Variable verify : bytes -> bytes -> bytes -> N.
  Variable P : cparams.

  (* a declared height must be the parent's plus one whenever the parent is stored *)
  Definition position_ok (b : block) (s : cstate) : Prop :=
    match cs_blocks s !! b_prev b with
    | Some prev => b_height b = b_height prev + 1
    | None => b_height b = 0              (* no stored parent: only a genesis block *)
    end.

  (* the whole function, at or below the horizon: the position check, then the table comparison *)
  Lemma v_block_in_state_below (b : block) (s : cstate) :
    (Z.of_N (b_height b) <= p_hz P)%Z ->
    v_block_in_state sha scrypt blake verify P b s =
      (do _ <- match cs_blocks s !! b_prev b with
               | Some prev => check (b_height b =? b_height prev + 1) EValidation
               | None => check (b_height b =? 0) EValidation
               end;
       match known_hash (p_known P) (b_height b) with
       | Some kh => check (bytes_eqb (block_id sha b) kh) EValidation
       | None => Ok tt
       end).
  Proof.
    intros Hle. unfold v_block_in_state.
    destruct (Z.of_N (b_height b) <=? p_hz P)%Z eqn:E; [done | lia].
  Qed.

  Lemma position_check_ok (b : block) (s : cstate) :
    position_ok b s ->
    match cs_blocks s !! b_prev b with
    | Some prev => check (b_height b =? b_height prev + 1) EValidation
    | None => check (b_height b =? 0) EValidation
    end = Ok tt.
  Proof.
    unfold position_ok. intros Hp. destruct (cs_blocks s !! b_prev b) as [prev|] eqn:E;
      apply check_ok; apply N.eqb_eq; exact Hp.
  Qed.

  Lemma position_check_inv (b : block) (s : cstate) (r : res unit) :
    (do _ <- match cs_blocks s !! b_prev b with
             | Some prev => check (b_height b =? b_height prev + 1) EValidation
             | None => check (b_height b =? 0) EValidation
             end; r) = Ok tt -> position_ok b s /\ r = Ok tt.
  Proof.
    intros H. apply bind_ok in H as [[] [H1 H2]]. split; [|done].
    unfold position_ok. destruct (cs_blocks s !! b_prev b) as [prev|]; apply check_ok in H1; by apply N.eqb_eq in H1.
  Qed.

  Theorem checkpoint_enforced (b : block) (s : cstate) (kh : bytes) :
    v_block_in_state sha scrypt blake verify P b s = Ok tt ->
    (Z.of_N (b_height b) <= p_hz P)%Z ->
    known_hash (p_known P) (b_height b) = Some kh ->
    block_id sha b = kh.
  Proof.
    intros Hok Hle Hk. rewrite v_block_in_state_below in Hok by exact Hle.
    apply position_check_inv in Hok as [_ Hok]. rewrite Hk in Hok.
    apply check_ok in Hok. by apply HeaderProofs.bytes_eqb_eq in Hok.
  Qed.

  (* converse direction: a block AT that position whose id is the checkpointed one passes, whatever else it contains *)
  Theorem checkpoint_sufficient (b : block) (s : cstate) :
    (Z.of_N (b_height b) <= p_hz P)%Z -> position_ok b s ->
    known_hash (p_known P) (b_height b) = Some (block_id sha b) ->
    v_block_in_state sha scrypt blake verify P b s = Ok tt.
  Proof.
    intros Hle Hp Hk. rewrite v_block_in_state_below by exact Hle. rewrite (position_check_ok _ _ Hp). cbn.
    rewrite Hk. apply check_ok. by apply HeaderProofs.bytes_eqb_eq.
  Qed.

  (* a wrong id at a checkpointed height is rejected with a ValidationError *)
  Theorem checkpoint_mismatch_rejected (b : block) (s : cstate) (kh : bytes) :
    (Z.of_N (b_height b) <= p_hz P)%Z ->
    known_hash (p_known P) (b_height b) = Some kh ->
    block_id sha b <> kh ->
    v_block_in_state sha scrypt blake verify P b s = Err EValidation.
  Proof.
    intros Hle Hk Hne. rewrite v_block_in_state_below by exact Hle. rewrite Hk.
    destruct (cs_blocks s !! b_prev b) as [prev|]; cbn.
    - destruct (b_height b =? b_height prev + 1); cbn; [|done].
      destruct (bytes_eqb (block_id sha b) kh) eqn:E; [|done]. by apply HeaderProofs.bytes_eqb_eq in E.
    - destruct (b_height b =? 0); cbn; [|done].
      destruct (bytes_eqb (block_id sha b) kh) eqn:E; [|done]. by apply HeaderProofs.bytes_eqb_eq in E.
  Qed.

  (* at a position at or below the horizon whose height is not in the table, nothing ELSE is validated in-state: no
     target, no evidence (proof of work), no coinbase amount, no signatures, no double-spend check -- by design (such a
     block can never be followed past the next checkpoint) *)
  Theorem below_horizon_only_checkpoint (b : block) (s : cstate) :
    (Z.of_N (b_height b) <= p_hz P)%Z -> position_ok b s ->
    known_hash (p_known P) (b_height b) = None ->
    v_block_in_state sha scrypt blake verify P b s = Ok tt.
  Proof.
    intros Hle Hp Hk. rewrite v_block_in_state_below by exact Hle. rewrite (position_check_ok _ _ Hp). cbn.
    by rewrite Hk.
  Qed.

  (* ... but a block that merely DECLARES such a height while attached to a block of another height is rejected,
     whatever the table says *)
  Theorem declared_height_off_position_rejected (b : block) (s : cstate) (prev : block) :
    cs_blocks s !! b_prev b = Some prev -> b_height b <> b_height prev + 1 ->
    (Z.of_N (b_height b) <= p_hz P)%Z ->
    v_block_in_state sha scrypt blake verify P b s = Err EValidation.
  Proof.
    intros Hprev Hne Hle. rewrite v_block_in_state_below by exact Hle. rewrite Hprev.
    destruct (N.eqb_spec (b_height b) (b_height prev + 1)) as [E|E]; [done|]. done.
  Qed.

  (* ... and so is a block without a stored parent, unless it declares height 0 *)
  Theorem parentless_nonzero_height_rejected (b : block) (s : cstate) :
    cs_blocks s !! b_prev b = None -> b_height b <> 0 ->
    v_block_in_state sha scrypt blake verify P b s = Err EValidation.
  Proof.
    intros Hprev Hne. unfold v_block_in_state.
    destruct (Z.of_N (b_height b) <=? p_hz P)%Z eqn:E.
    - rewrite Hprev. destruct (N.eqb_spec (b_height b) 0) as [E0|E0]; [done|]. done.
    - unfold v_summary_in_state. change (s_prev (h_summary (b_header b))) with (b_prev b). rewrite Hprev. done.
  Qed.

  (* the in-state verdict, on either side of the horizon: an accepted block's height is its parent's plus one *)
  Theorem accepted_height_is_position (b : block) (s : cstate) (prev : block) :
    v_block_in_state sha scrypt blake verify P b s = Ok tt ->
    cs_blocks s !! b_prev b = Some prev -> b_height b = b_height prev + 1.
  Proof.
    intros Hok Hprev. unfold v_block_in_state in Hok.
    destruct (Z.of_N (b_height b) <=? p_hz P)%Z eqn:E.
    - apply position_check_inv in Hok as [Hp _]. unfold position_ok in Hp. by rewrite Hprev in Hp.
    - apply bind_ok in Hok as [[] [_ Hok]]. apply bind_ok in Hok as [ev [_ Hok]].
      apply bind_ok in Hok as [[] [_ Hok]]. destruct (b_txs b) as [|cb rest]; [done|].
      apply bind_ok in Hok as [[] [Hcb _]]. unfold v_cb_in_state in Hcb.
      apply bind_ok in Hcb as [prev' [Hp' Hcb]]. apply of_opt_ok in Hp'. rewrite Hprev in Hp'. inversion Hp'; subst prev'.
      apply bind_ok in Hcb as [[] [Hh _]]. apply check_ok in Hh. by apply N.eqb_eq in Hh.
  Qed.

  (* the shortcut as shipped before the fix (keyed on the declared height alone) *)
  Definition v_block_in_state_declared (b : block) (s : cstate) : res unit :=
    if (Z.of_N (b_height b) <=? p_hz P)%Z then
      match known_hash (p_known P) (b_height b) with
      | Some kh => check (bytes_eqb (block_id sha b) kh) EValidation
      | None => Ok tt
      end
    else v_block_in_state sha scrypt blake verify P b s.
End Checkpoint.

(* ---- 1b. known_hash is a first-match association-list lookup ---- *)
Lemma known_hash_in (tbl : list (N * bytes)) (h : N) (id : bytes) :
  known_hash tbl h = Some id -> (h, id) ∈ tbl.
Proof.
  induction tbl as [|[k v] r IH]; cbn [known_hash]; [done|].
  destruct (k =? h) eqn:E.
  - intros [= <-]. assert (k = h) as -> by lia. apply elem_of_list_here.
  - intros H. apply elem_of_list_further. by apply IH.
Qed.

Lemma known_hash_none (tbl : list (N * bytes)) (h : N) :
  known_hash tbl h = None <-> h ∉ map fst tbl.
Proof.
  induction tbl as [|[k v] r IH]; cbn [known_hash map fst].
  - split; [intros _; apply not_elem_of_nil | done].
  - rewrite not_elem_of_cons. destruct (k =? h) eqn:E.
    + split; [done|]. intros [Hne _]. lia.
    + rewrite IH. split; [intros H; split; [lia | done] | intros [_ H]; done].
Qed.

(* with distinct heights, known_hash finds exactly the listed entry *)
Lemma known_hash_lookup (tbl : list (N * bytes)) (h : N) (id : bytes) :
  (h, id) ∈ tbl -> NoDup (map fst tbl) -> known_hash tbl h = Some id.
Proof.
  induction tbl as [|[k v] r IH]; cbn [known_hash map fst]; intros Hin Hnd.
  - by apply elem_of_nil in Hin.
  - apply NoDup_cons in Hnd as [Hk Hnd]. apply elem_of_cons in Hin as [Heq|Hin].
    + injection Heq as -> ->. by rewrite N.eqb_refl.
    + destruct (k =? h) eqn:E; [|by apply IH].
      assert (k = h) as -> by lia. exfalso. apply Hk.
      change h with (fst (h, id)). apply elem_of_list_fmap_1 with (f := fst) in Hin. exact Hin.
  Qed.

Lemma known_hash_spec (tbl : list (N * bytes)) (h : N) (id : bytes) :
  NoDup (map fst tbl) -> (known_hash tbl h = Some id <-> (h, id) ∈ tbl).
Proof. intros Hnd. split; [apply known_hash_in | intros; by apply known_hash_lookup]. Qed.

(* ---- 1c. boolean checkers and their lifting lemmas ---- *)
Fixpoint memN (x : N) (l : list N) : bool :=
  match l with [] => false | y :: r => (x =? y) || memN x r end.
Fixpoint nodupN (l : list N) : bool :=
  match l with [] => true | x :: r => negb (memN x r) && nodupN r end.

Lemma memN_spec (x : N) (l : list N) : memN x l = true <-> x ∈ l.
Proof.
  induction l as [|y r IH]; cbn [memN].
  - split; [done | intros H; by apply elem_of_nil in H].
  - rewrite orb_true_iff, elem_of_cons, IH, N.eqb_eq. done.
Qed.

Lemma nodupN_sound (l : list N) : nodupN l = true -> NoDup l.
Proof.
  induction l as [|x r IH]; cbn [nodupN]; [intros _; apply NoDup_nil_2|].
  rewrite andb_true_iff, negb_true_iff. intros [Hm Hr]. apply NoDup_cons. split; [|by apply IH].
  intros Hin. apply memN_spec in Hin. congruence.
Qed.

Lemma forallb_Forall {A} (f : A -> bool) (l : list A) :
  forallb f l = true -> Forall (fun x => f x = true) l.
Proof.
  induction l as [|x r IH]; cbn [forallb]; [intros _; apply Forall_nil_2|].
  rewrite andb_true_iff. intros [Hx Hr]. apply Forall_cons. split; [done | by apply IH].
Qed.

Lemma bytes_wfb_sound (bs : bytes) : bytes_wfb bs = true -> bytes_wf bs.
Proof.
  unfold bytes_wfb, bytes_wf. intros H. apply forallb_Forall in H.
  eapply Forall_impl; [exact H|]. intros b Hb. cbn beta in Hb. lia.
Qed.

(* ---- 1d. facts about the REGENERATED table (all by evaluation of a boolean check) ---- *)
Definition tbl := Gen_Checkpoints.KNOWN_HASHES.
Definition hz := Gen_Checkpoints.MAX_KNOWN_HASH_HEIGHT.

Lemma table_nonempty : tbl <> [].
Proof. unfold tbl, Gen_Checkpoints.KNOWN_HASHES. discriminate. Qed.

Theorem table_heights_distinct : NoDup (map fst Gen_Checkpoints.KNOWN_HASHES).
Proof. apply nodupN_sound. vm_compute. reflexivity. Qed.

Definition entry_le_hz (e : N * bytes) : bool := (Z.of_N (fst e) <=? hz)%Z.

(* MAX_KNOWN_HASH_HEIGHT is the maximum of the listed heights: an upper bound that is attained *)
Theorem table_max :
  (0 <= Gen_Checkpoints.MAX_KNOWN_HASH_HEIGHT)%Z /\
  Forall (fun e => (Z.of_N (fst e) <= Gen_Checkpoints.MAX_KNOWN_HASH_HEIGHT)%Z) Gen_Checkpoints.KNOWN_HASHES /\
  Z.to_N Gen_Checkpoints.MAX_KNOWN_HASH_HEIGHT ∈ map fst Gen_Checkpoints.KNOWN_HASHES.
Proof.
  split; [|split].
  - vm_compute. discriminate.
  - assert (forallb entry_le_hz tbl = true) as H by (vm_compute; reflexivity).
    apply forallb_Forall in H. eapply Forall_impl; [exact H|].
    intros e He. cbn beta in He |- *. unfold entry_le_hz, hz in He. apply Z.leb_le in He. exact He.
  - apply memN_spec. vm_compute. reflexivity.
Qed.

(* hence every listed height is at or below the horizon, i.e. every entry of the table is actually consulted *)
Corollary table_entries_below_horizon (h : N) (id : bytes) :
  (h, id) ∈ Gen_Checkpoints.KNOWN_HASHES -> (Z.of_N h <= Gen_Checkpoints.MAX_KNOWN_HASH_HEIGHT)%Z.
Proof.
  intros Hin. destruct table_max as (_ & Hall & _).
  rewrite Forall_forall in Hall. exact (Hall _ Hin).
Qed.

Definition entry_wfb (e : N * bytes) : bool := Nat.eqb (length (snd e)) 32 && bytes_wfb (snd e).

Theorem table_ids_wf :
  Forall (fun e => length (snd e) = 32%nat /\ bytes_wf (snd e)) Gen_Checkpoints.KNOWN_HASHES.
Proof.
  assert (forallb entry_wfb tbl = true) as H by (vm_compute; reflexivity).
  apply forallb_Forall in H. eapply Forall_impl; [exact H|].
  intros e He. unfold entry_wfb in He. apply andb_true_iff in He as [Hl Hw].
  split; [by apply Nat.eqb_eq | by apply bytes_wfb_sound].
Qed.

(* known_hash finds exactly the listed entry, for every listed height *)
Theorem table_lookup_exact (h : N) (id : bytes) :
  known_hash Gen_Checkpoints.KNOWN_HASHES h = Some id <-> (h, id) ∈ Gen_Checkpoints.KNOWN_HASHES.
Proof. apply known_hash_spec, table_heights_distinct. Qed.

Theorem table_lookup_unlisted (h : N) :
  known_hash Gen_Checkpoints.KNOWN_HASHES h = None <-> h ∉ map fst Gen_Checkpoints.KNOWN_HASHES.
Proof. apply known_hash_none. Qed.

(* height 0 (genesis) is checkpointed, by the first entry of the table *)
Theorem table_has_genesis :
  exists id, head Gen_Checkpoints.KNOWN_HASHES = Some (0, id) /\
             known_hash Gen_Checkpoints.KNOWN_HASHES 0 = Some id /\
             length id = 32%nat /\ bytes_wf id.
Proof.
  destruct tbl as [|[k id] r] eqn:E; [by destruct table_nonempty|].
  unfold tbl in E.
  assert (match head Gen_Checkpoints.KNOWN_HASHES with Some (k, _) => k =? 0 | None => false end = true) as Hk
    by (vm_compute; reflexivity).
  rewrite E in Hk. cbn [head] in Hk. assert (k = 0) as -> by lia.
  exists id. rewrite E. cbn [head known_hash]. rewrite N.eqb_refl.
  pose proof table_ids_wf as Hwf. rewrite E in Hwf. apply Forall_cons in Hwf as [[Hl Hw] _].
  done.
Qed.

(* putting 1a and 1d together for parameters that carry the regenerated table and horizon: at every listed height
   the only block that passes in-state validation is the one with the listed id, and every entry is live *)
Theorem real_checkpoint_enforced
    (sha scrypt blake : bytes -> bytes) (verify : bytes -> bytes -> bytes -> N) (P : cparams)
    (b : block) (s : cstate) (id : bytes) :
  p_known P = Gen_Checkpoints.KNOWN_HASHES -> p_hz P = Gen_Checkpoints.MAX_KNOWN_HASH_HEIGHT ->
  (b_height b, id) ∈ Gen_Checkpoints.KNOWN_HASHES ->
  (v_block_in_state sha scrypt blake verify P b s = Ok tt -> block_id sha b = id) /\
  (position_ok b s -> block_id sha b = id -> v_block_in_state sha scrypt blake verify P b s = Ok tt).
Proof.
  intros Hk Hz Hin.
  assert (Z.of_N (b_height b) <= p_hz P)%Z as Hle by (rewrite Hz; by eapply table_entries_below_horizon).
  assert (known_hash (p_known P) (b_height b) = Some id) as Hkh by (rewrite Hk; by apply table_lookup_exact).
  split.
  - intros Hok. by eapply checkpoint_enforced.
  - intros Hp <-. by eapply checkpoint_sufficient.
Qed.

(* the defect of the shipped shortcut, as a theorem about the pre-fix function: with the real table and horizon, a block
   declaring height 1 on top of a parent of ANY height passes in-state validation with nothing checked *)
Theorem declared_height_shortcut_refuted
    (sha scrypt blake : bytes -> bytes) (verify : bytes -> bytes -> bytes -> N) (P : cparams) (b : block) (s : cstate) :
  p_known P = Gen_Checkpoints.KNOWN_HASHES -> p_hz P = Gen_Checkpoints.MAX_KNOWN_HASH_HEIGHT ->
  b_height b = 1 ->
  v_block_in_state_declared sha scrypt blake verify P b s = Ok tt.
Proof.
  intros Hk Hz Hh. unfold v_block_in_state_declared. rewrite Hh, Hz, Hk.
  assert ((Z.of_N 1 <=? Gen_Checkpoints.MAX_KNOWN_HASH_HEIGHT)%Z = true) as -> by (vm_compute; reflexivity).
  assert (known_hash Gen_Checkpoints.KNOWN_HASHES 1 = None) as -> by (vm_compute; reflexivity).
  reflexivity.
Qed.

(* ---- 1e. the regenerated genesis block ---- *)
Definition genesis_check : bool :=
  match dec_block Gen_Checkpoints.genesis_block_data with
  | Some (g, []) =>
      bytes_eqb (enc_block g) Gen_Checkpoints.genesis_block_data
      && (b_height g =? 0)
      && is_zero32 (b_prev g)
      && match b_txs g with
         | [cb] => sum_outputs (tx_outputs cb) =? 1000000000
         | _ => false
         end
  | _ => false
  end.

Lemma genesis_check_true : genesis_check = true.
Proof. vm_compute. reflexivity. Qed.

Theorem genesis_decodes :
  exists g, dec_block Gen_Checkpoints.genesis_block_data = Some (g, []) /\
            enc_block g = Gen_Checkpoints.genesis_block_data /\
            b_height g = 0 /\
            is_zero32 (b_prev g) = true /\
            (exists cb, b_txs g = [cb] /\ sum_outputs (tx_outputs cb) = 1000000000).
Proof.
  pose proof genesis_check_true as H. unfold genesis_check in H.
  destruct (dec_block Gen_Checkpoints.genesis_block_data) as [[g [|x r]]|]; [|discriminate..].
  exists g. apply andb_true_iff in H as [H H4]. apply andb_true_iff in H as [H H3].
  apply andb_true_iff in H as [H1 H2]. apply HeaderProofs.bytes_eqb_eq in H1.
  split; [done|]. split; [done|]. split; [lia|]. split; [done|].
  destruct (b_txs g) as [|cb [|cb2 rest]]; [discriminate | | discriminate].
  exists cb. split; [done | lia].
Qed.

Theorem genesis_bytes_wf : bytes_wf Gen_Checkpoints.genesis_block_data.
Proof. apply bytes_wfb_sound. vm_compute. reflexivity. Qed.

(* the genesis coinbase pays exactly the (regenerated) subsidy of height 0 *)
Lemma genesis_value_is_subsidy_0 : Gen_Functions.get_block_subsidy 0 = 1000000000%Z.
Proof. reflexivity. Qed.

(* ====================================================================================================== *)
(* PART 2 : the cumulative subsidy never exceeds the documented maximum (C02 / C16 link)                    *)
(* ====================================================================================================== *)

Local Notation gen_subsidy := Gen_Functions.get_block_subsidy.
Local Notation sum_upto := Subsidy.sum_upto.

(* facts about the regenerated function that do not mention any cparams *)
Lemma gen_subsidy_nonneg (h : Z) : (0 <= h -> 0 <= gen_subsidy h)%Z.
Proof.
  intros Hh. rewrite Properties_C16.c16_value by exact Hh.
  apply Z.div_pos; [lia|]. apply Z.pow_pos_nonneg; [lia|]. apply Z.div_pos; lia.
Qed.

Lemma sum_upto_mono (f : Z -> Z) (n m : nat) :
  (forall x, (0 <= x -> 0 <= f x)%Z) -> (n <= m)%nat -> (sum_upto f n <= sum_upto f m)%Z.
Proof.
  intros Hf Hnm. induction Hnm as [|m Hnm IH]; [lia|].
  cbn [Subsidy.sum_upto]. pose proof (Hf (Z.of_nat m)). lia.
Qed.

(* a nat of the size of the schedule, obtained without ever computing it *)
Lemma schedule_end_nat : exists m : nat, Z.of_nat m = 31500000%Z.
Proof. exists (Z.to_nat 31500000). apply Z2Nat.id. discriminate. Qed.

Lemma gen_sum_le_max (n : nat) : (sum_upto gen_subsidy n <= 2099999986350000)%Z.
Proof.
  destruct schedule_end_nat as [m Hm].
  rewrite <- (Properties_C16.c16_total (n + m)) by lia.
  apply sum_upto_mono; [apply gen_subsidy_nonneg | lia].
Qed.

Section Supply.
  Variable P : cparams.
  Hypothesis Hint : Z.of_N (p_interval P) = Gen_Params.SUBSIDY_HALVING_INTERVAL.
  Hypothesis Hini : Z.of_N (p_initial P) = Gen_Params.INITIAL_SUBSIDY.

  (* the N-based subsidy function of the validation model is the regenerated Python function *)
  Lemma model_subsidy_is_gen (h : N) :
    Z.of_N (Validate.get_block_subsidy P h) = Gen_Functions.get_block_subsidy (Z.of_N h).
  Proof.
    unfold Validate.get_block_subsidy, Gen_Functions.get_block_subsidy. cbv zeta.
    assert (0 < Gen_Params.SUBSIDY_HALVING_INTERVAL)%Z as Hpos by reflexivity.
    rewrite <- Hint, <- Hini. rewrite <- Hint in Hpos.
    destruct (p_interval P =? 0) eqn:E0; [lia|].
    rewrite <- N2Z.inj_div.
    destruct (64 <=? h / p_interval P) eqn:E1;
      destruct (Z.of_N (h / p_interval P) >=? 64)%Z eqn:E2; lia.
  Qed.

  Lemma cum_nat_is_sum (n : nat) :
    Z.of_N (cum_nat P n) = sum_upto Gen_Functions.get_block_subsidy (S n).
  Proof.
    induction n as [|n IH].
    - cbn [cum_nat Subsidy.sum_upto]. rewrite model_subsidy_is_gen.
      change (Z.of_N 0) with 0%Z. change (Z.of_nat 0) with 0%Z. lia.
    - cbn [cum_nat]. rewrite N2Z.inj_add, IH, model_subsidy_is_gen.
      rewrite nat_N_Z. cbn [Subsidy.sum_upto]. reflexivity.
  Qed.

  (* cum P h = sum of the regenerated subsidy over heights 0..h *)
  Lemma cum_is_sum (h : N) :
    Z.of_N (cum P h) = sum_upto Gen_Functions.get_block_subsidy (S (N.to_nat h)).
  Proof. unfold cum. apply cum_nat_is_sum. Qed.

  Lemma cum_mono (h1 h2 : N) : h1 <= h2 -> cum P h1 <= cum P h2.
  Proof.
    intros Hle. enough (Z.of_N (cum P h1) <= Z.of_N (cum P h2))%Z by lia.
    rewrite !cum_is_sum. apply sum_upto_mono; [apply gen_subsidy_nonneg | lia].
  Qed.

  Theorem cum_le_max (h : N) : cum P h <= 2099999986350000.
  Proof.
    enough (Z.of_N (cum P h) <= 2099999986350000)%Z by lia.
    rewrite cum_is_sum. apply gen_sum_le_max.
  Qed.

  (* the bound is attained: from the last subsidised height on, cum is exactly the documented maximum *)
  Theorem cum_eq_max (h : N) : 31500000 <= h + 1 -> cum P h = 2099999986350000.
  Proof.
    intros Hh. enough (Z.of_N (cum P h) = 2099999986350000)%Z by lia.
    rewrite cum_is_sum. apply Properties_C16.c16_total. lia.
  Qed.

  (* and strictly below it before that (the subsidy of height 31499999 is still positive) *)
  Theorem cum_lt_max (h : N) : h + 1 < 31500000 -> cum P h < 2099999986350000.
  Proof.
    intros Hh. pose proof (cum_le_max (h + 1)) as Hle. rewrite cum_succ in Hle.
    enough (0 < Z.of_N (Validate.get_block_subsidy P (h + 1)))%Z by lia.
    rewrite model_subsidy_is_gen. apply Properties_C16.c16_positive_before. lia.
  Qed.

  Corollary cum_le_max_sashimi (h : N) : (Z.of_N (cum P h) <= Gen_Params.MAX_SASHIMI)%Z.
  Proof. pose proof (cum_le_max h) as H. change Gen_Params.MAX_SASHIMI with 2099999986350000%Z. lia. Qed.

  Corollary supply_never_exceeds_max (s : cstate) :
    SupplyInv P s ->
    forall h b u, cs_blocks s !! h = Some b -> cs_utxo s !! h = Some u -> utxo_total u <= 2099999986350000.
  Proof.
    intros Hinv h b u Hb Hu. pose proof (Hinv h b u Hb Hu) as H1.
    pose proof (cum_le_max (b_height b)) as H2. lia.
  Qed.

  (* end-to-end form: every state reached from the empty state by validated blocks respects the maximum *)
  Corollary supply_never_exceeds_max_reachable
      (sha scrypt blake : bytes -> bytes) (verify : bytes -> bytes -> bytes -> N) (s : cstate) :
    validated_from sha scrypt blake verify P cs_empty s ->
    forall h b u, cs_blocks s !! h = Some b -> cs_utxo s !! h = Some u -> utxo_total u <= 2099999986350000.
  Proof.
    intros Hv. apply supply_never_exceeds_max.
    eapply supply_bound; [apply supply_inv_empty | exact Hv].
  Qed.
End Supply.

(* non-vacuity of the two section hypotheses (and of the hypotheses of real_checkpoint_enforced) *)
Lemma real_params_exist :
  exists P : cparams,
    Z.of_N (p_interval P) = Gen_Params.SUBSIDY_HALVING_INTERVAL /\
    Z.of_N (p_initial P) = Gen_Params.INITIAL_SUBSIDY /\
    p_known P = Gen_Checkpoints.KNOWN_HASHES /\ p_hz P = Gen_Checkpoints.MAX_KNOWN_HASH_HEIGHT.
Proof.
  exists (mkParams Gen_Checkpoints.MAX_KNOWN_HASH_HEIGHT Gen_Checkpoints.KNOWN_HASHES 10080 1209600 200000 200 30
            2099999986350000 (Z.to_N Gen_Params.SUBSIDY_HALVING_INTERVAL) (Z.to_N Gen_Params.INITIAL_SUBSIDY) 8 4).
  cbn [p_interval p_initial p_known p_hz]. repeat split; reflexivity.
Qed.

