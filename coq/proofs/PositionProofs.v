(* "Above the checkpoint horizon" read as a POSITION in the chain (the parent's height plus one), not as the height a
   block declares: since an accepted block's height is its parent's plus one on either side of the horizon
   (MiscProofs.accepted_height_is_position, the fix recorded in known_findings.json), every soundness theorem stated
   under FV (declared height above the horizon) also holds under FVpos. *)
From stdpp Require Import gmap.
From Coq Require Import NArith ZArith Lia.
From SkV Require Import Bytes Codec Ledger ChainState Pow Validate ChainDefs ValidProofs MiscProofs.
Open Scope N_scope.

Section Position.
  Variable sha : bytes -> bytes.
  Variable scrypt : bytes -> bytes.
  Variable blake : bytes -> bytes.
  Variable verify : bytes -> bytes -> bytes -> N.
  Variable P : cparams.

  Definition FVpos (s : cstate) (b : block) : Prop :=
    exists prev, cs_blocks s !! b_prev b = Some prev /\ (p_hz P < Z.of_N (b_height prev + 1))%Z.

  Lemma add_block_in_state_ok s b now s' :
    add_block sha scrypt blake verify P s b now = Ok s' -> v_block_in_state sha scrypt blake verify P b s = Ok tt.
  Proof.
    unfold add_block. intros H. apply bind_ok in H as [[] [_ H]]. apply bind_ok in H as [[] [H _]]. exact H.
  Qed.

  Theorem accepted_position_is_FV s b now s' :
    add_block sha scrypt blake verify P s b now = Ok s' -> FVpos s b -> FV P b.
  Proof.
    intros Hok [prev [Hprev Hz]]. apply add_block_in_state_ok in Hok.
    pose proof (accepted_height_is_position sha scrypt blake verify P b s prev Hok Hprev) as Hh.
    unfold FV. rewrite Hh. exact Hz.
  Qed.

  (* conversely a block accepted under FV sits above the horizon *)
  Theorem accepted_FV_is_position s b now s' prev :
    add_block sha scrypt blake verify P s b now = Ok s' -> FV P b -> cs_blocks s !! b_prev b = Some prev ->
    FVpos s b.
  Proof.
    intros Hok Hfv Hprev. exists prev. split; [exact Hprev|]. apply add_block_in_state_ok in Hok.
    pose proof (accepted_height_is_position sha scrypt blake verify P b s prev Hok Hprev) as Hh.
    unfold FV in Hfv. rewrite Hh in Hfv. exact Hfv.
  Qed.
End Position.
