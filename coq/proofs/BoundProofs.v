(* Resource bound of list decoding (stream_deserialize_list and the wire messages built on it): whatever element count
   the input DECLARES, a successful decode yields exactly that many elements and each of them consumed at least one
   byte, so the count (and the number of element-decoder calls) never exceeds the number of bytes present; a declared
   count larger than the remaining input is a decode failure. *)
From Coq Require Import NArith List Lia Arith.
From SkV Require Import Bytes Vlq Codec.
From SkV Require Wire.
Import ListNotations.

Section Bound.
  Context {A : Type} (dec : bytes -> option (A * bytes)).
  Hypothesis dec_consumes : forall bs x r, dec bs = Some (x, r) -> (length r < length bs)%nat.

  Lemma dec_elems_bound : forall fuel count bs l r,
    dec_elems dec fuel count bs = Some (l, r) ->
    N.of_nat (length l) = count /\ (length l + length r <= length bs)%nat.
  Proof.
    induction fuel as [|f IH]; intros count bs l r H; cbn [dec_elems] in H.
    - destruct (N.eqb_spec count 0) as [E|E]; [|discriminate]. inversion H; subst. cbn. split; lia.
    - destruct (N.eqb_spec count 0) as [E|E].
      + inversion H; subst. cbn. split; lia.
      + destruct (dec bs) as [[x r0]|] eqn:Ed; [|discriminate].
        destruct (dec_elems dec f (count - 1) r0) as [[xs r']|] eqn:Er; [|discriminate].
        inversion H; subst. apply IH in Er. destruct Er as [Hc Hl]. apply dec_consumes in Ed.
        cbn [length]. split; lia.
  Qed.

  Lemma vlq_dec_aux_shorter : forall bs acc n r, vlq_dec_aux acc bs = Some (n, r) -> (length r < length bs)%nat.
  Proof.
    induction bs as [|b bs IH]; intros acc n r H; cbn [vlq_dec_aux] in H; [discriminate|].
    destruct (b <? 128)%N.
    - inversion H; subst. cbn. lia.
    - apply IH in H. cbn. lia.
  Qed.

  Lemma vlq_dec_no_longer bs n r : vlq_dec bs = Some (n, r) -> (length r <= length bs)%nat.
  Proof.
    unfold vlq_dec, vlq_dec_lenient. destruct (vlq_dec_aux 0 bs) as [[v rest]|] eqn:E; [|discriminate].
    destruct (Nat.eqb _ _); [|discriminate]. intros H; inversion H; subst.
    apply vlq_dec_aux_shorter in E. lia.
  Qed.

  Theorem dec_list_bounded_by_input bs l r :
    dec_list dec bs = Some (l, r) -> (length l + length r <= length bs)%nat.
  Proof.
    unfold dec_list. destruct (vlq_dec bs) as [[n r0]|] eqn:Ev; [|discriminate].
    intros H. apply dec_elems_bound in H. apply vlq_dec_no_longer in Ev. lia.
  Qed.

  (* a declared count above the number of remaining bytes is rejected *)
  Theorem declared_count_exceeds_input_rejected bs n r0 :
    vlq_dec bs = Some (n, r0) -> (N.of_nat (length r0) < n)%N -> dec_list dec bs = None.
  Proof.
    intros Ev Hn. unfold dec_list. rewrite Ev.
    destruct (dec_elems dec (length r0) n r0) as [[l r]|] eqn:E; [|reflexivity].
    apply dec_elems_bound in E. lia.
  Qed.
End Bound.

(* ---- the element decoders of every list the protocol carries consume at least one byte ---- *)
Lemma take_len n bs a r : take n bs = Some (a, r) -> (n <= length bs)%nat /\ length r = (length bs - n)%nat.
Proof.
  unfold take. destruct (Nat.leb_spec n (length bs)) as [H|H]; [|discriminate].
  intros E; inversion E; subst. split; [exact H|]. apply skipn_length.
Qed.

Lemma dec_be_len w bs v r : dec_be w bs = Some (v, r) -> (w <= length bs)%nat /\ length r = (length bs - w)%nat.
Proof. unfold dec_be. destruct (take w bs) as [[h r0]|] eqn:E; [|discriminate]. intros H; inversion H; subst. eapply take_len; eauto. Qed.

Ltac lens :=
  repeat match goal with
         | H : take _ _ = Some _ |- _ => apply take_len in H
         | H : dec_be _ _ = Some _ |- _ => apply dec_be_len in H
         end.

Lemma dec_hash32_consumes bs x r : Wire.dec_hash32 bs = Some (x, r) -> (length r < length bs)%nat.
Proof. unfold Wire.dec_hash32. intros H. lens. lia. Qed.

Lemma dec_item_consumes bs x r : Wire.dec_item bs = Some (x, r) -> (length r < length bs)%nat.
Proof.
  unfold Wire.dec_item. destruct (take 2 bs) as [[dt r0]|] eqn:E1; [|discriminate].
  destruct (take 32 r0) as [[h r1]|] eqn:E2; [|discriminate]. intros H; inversion H; subst. lens. lia.
Qed.

Lemma dec_peer_consumes bs x r : Wire.dec_peer bs = Some (x, r) -> (length r < length bs)%nat.
Proof.
  unfold Wire.dec_peer. destruct (dec_be 4 bs) as [[s r0]|] eqn:E1; [|discriminate].
  destruct (take 16 r0) as [[ip r1]|] eqn:E2; [|discriminate].
  destruct (dec_be 2 r1) as [[p r2]|] eqn:E3; [|discriminate]. intros H; inversion H; subst. lens. lia.
Qed.

Lemma dec_sig_no_longer bs s r : dec_sig bs = Some (s, r) -> (length r < length bs)%nat.
Proof.
  unfold dec_sig. destruct bs as [|b bs]; [discriminate|].
  destruct b as [|p]; [intros H; inversion H; subst; cbn; lia|].
  destruct p as [p|p|].
  - destruct p as [p|p|]; try discriminate.
  - destruct p as [p|p|]; try discriminate.
    destruct (take 64 bs) as [[sg r1]|] eqn:E; [|discriminate]. intros H; inversion H; subst. lens. cbn. lia.
  - destruct (dec_be 4 bs) as [[h r1]|] eqn:E1; [|discriminate].
    destruct (dec_be 1 r1) as [[n r2]|] eqn:E2; [|discriminate].
    destruct (take (N.to_nat n) r2) as [[d r3]|] eqn:E3; [|discriminate].
    intros H; inversion H; subst. lens. cbn. lia.
Qed.

Lemma dec_input_consumes bs x r : dec_input bs = Some (x, r) -> (length r < length bs)%nat.
Proof.
  unfold dec_input, dec_outref. destruct (take 32 bs) as [[h r0]|] eqn:E1; [|discriminate].
  destruct (dec_be 4 r0) as [[i r1]|] eqn:E2; [|discriminate].
  destruct (dec_sig r1) as [[s r2]|] eqn:E3; [|discriminate].
  intros H; inversion H; subst. apply dec_sig_no_longer in E3. lens. lia.
Qed.

Lemma dec_output_consumes bs x r : dec_output bs = Some (x, r) -> (length r < length bs)%nat.
Proof.
  unfold dec_output, dec_pk. destruct (dec_be 8 bs) as [[v r0]|] eqn:E1; [|discriminate].
  destruct r0 as [|b r0]; [discriminate|].
  destruct b as [|p]; [discriminate|]. destruct p as [p|p|]; try discriminate.
  destruct p as [p|p|]; try discriminate.
  destruct (take 64 r0) as [[pk r1]|] eqn:E2; [|discriminate]. intros H; inversion H; subst. lens. cbn [length] in *. lia.
Qed.

Lemma dec_tx_consumes bs x r : dec_tx bs = Some (x, r) -> (length r < length bs)%nat.
Proof.
  unfold dec_tx. destruct bs as [|b bs]; [discriminate|]. destruct b; [|discriminate].
  destruct (dec_list dec_input bs) as [[ins r1]|] eqn:E1; [|discriminate].
  destruct (dec_list dec_output r1) as [[outs r2]|] eqn:E2; [|discriminate].
  intros H; inversion H; subst.
  apply (dec_list_bounded_by_input dec_input dec_input_consumes) in E1.
  apply (dec_list_bounded_by_input dec_output dec_output_consumes) in E2. cbn. lia.
Qed.

(* the lists of the protocol: start hashes of a get-blocks request, inventory items, peers, inputs, outputs,
   transactions of a block -- a successful decode never yields more elements than bytes received *)
Theorem protocol_lists_bounded :
  (forall bs l r, dec_list Wire.dec_hash32 bs = Some (l, r) -> (length l + length r <= length bs)%nat) /\
  (forall bs l r, dec_list Wire.dec_item bs = Some (l, r) -> (length l + length r <= length bs)%nat) /\
  (forall bs l r, dec_list Wire.dec_peer bs = Some (l, r) -> (length l + length r <= length bs)%nat) /\
  (forall bs l r, dec_list dec_input bs = Some (l, r) -> (length l + length r <= length bs)%nat) /\
  (forall bs l r, dec_list dec_output bs = Some (l, r) -> (length l + length r <= length bs)%nat) /\
  (forall bs l r, dec_list dec_tx bs = Some (l, r) -> (length l + length r <= length bs)%nat).
Proof.
  repeat split; intros bs l r H.
  - exact (dec_list_bounded_by_input _ dec_hash32_consumes _ _ _ H).
  - exact (dec_list_bounded_by_input _ dec_item_consumes _ _ _ H).
  - exact (dec_list_bounded_by_input _ dec_peer_consumes _ _ _ H).
  - exact (dec_list_bounded_by_input _ dec_input_consumes _ _ _ H).
  - exact (dec_list_bounded_by_input _ dec_output_consumes _ _ _ H).
  - exact (dec_list_bounded_by_input _ dec_tx_consumes _ _ _ H).
Qed.

Theorem getblocks_declared_count_exceeds_input_rejected bs n r0 :
  vlq_dec bs = Some (n, r0) -> (N.of_nat (length r0) < n)%N -> dec_list Wire.dec_hash32 bs = None.
Proof. exact (declared_count_exceeds_input_rejected _ dec_hash32_consumes bs n r0). Qed.

Print Assumptions protocol_lists_bounded.
Print Assumptions getblocks_declared_count_exceeds_input_rejected.
