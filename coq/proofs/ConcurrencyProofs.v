(* Two threads over the shared node state of model/NodeModel.v (manager.py ChainManager: the network thread calls
   add_transaction_to_pool, the miner thread calls set_coinstate; both bodies run under self.lock).
   A small-step interleaving model with an explicit lock, and:
     - with both bodies inside the lock every interleaving equals one of the sequential orders of the sequential
       model's handlers (locked_interleavings_serialise; any number of critical sections: locked_threads_linearise),
       hence PoolInv is preserved (locked_interleavings_preserve_PoolInv, locked_threads_preserve_PoolInv);
     - with the validation hoisted out of the critical section an interleaving commits a stale verdict and breaks
       PoolInv (unlocked_admission_refuted).
   Stdlib style only. *)
From Coq Require Import NArith List Bool Arith Lia.
From SkV Require Import NodeModel NodeProofs.
Import ListNotations.
Open Scope N_scope.

(* ------------------------------------------------------------------------------------------------------------ *)
(* Atomic actions, threads, configurations                                                                      *)

Inductive action :=
| AAcquire
| ARelease
| AValidate (t : N) (itself_ok : bool)
| ACommit (t : N)
| ASetState (blocks : list ablock) (head : N) (validated : bool).

(* local verdict flag, remaining actions *)
Definition thread := (bool * list action)%type.
(* shared state, lock owner (thread index 0 or 1), thread 0, thread 1 *)
Definition config := (nstate * option nat * thread * thread)%type.

Definition shared (c : config) : nstate := let '(s, _, _, _) := c in s.
Definition finished (c : config) : Prop := let '(_, _, th0, th1) := c in snd th0 = [] /\ snd th1 = [].

(* the programs *)
Definition prog_admit_locked (t : N) (ok : bool) : list action := [AAcquire; AValidate t ok; ACommit t; ARelease].
Definition prog_admit_unlocked (t : N) (ok : bool) : list action := [AValidate t ok; AAcquire; ACommit t; ARelease].
Definition prog_set (blocks : list ablock) (head : N) (v : bool) : list action :=
  [AAcquire; ASetState blocks head v; ARelease].

(* a critical section of a well-behaved thread *)
Inductive csec :=
| CAdmit (t : N) (ok : bool)
| CSet (blocks : list ablock) (head : N) (v : bool).

Definition prog_of_csec (x : csec) : list action :=
  match x with CAdmit t ok => prog_admit_locked t ok | CSet b h v => prog_set b h v end.
Definition prog_of (l : list csec) : list action := flat_map prog_of_csec l.

(* l is an interleaving of l0 and l1 (each keeps its own order) *)
Inductive merge {A} : list A -> list A -> list A -> Prop :=
| merge_nil : merge [] [] []
| merge_l x l0 l1 l : merge l0 l1 l -> merge (x :: l0) l1 (x :: l)
| merge_r x l0 l1 l : merge l0 l1 l -> merge l0 (x :: l1) (x :: l).

Lemma merge_one_one {A} (a b : A) l : merge [a] [b] l -> l = [a; b] \/ l = [b; a].
Proof.
  intros H. inversion H as [|x l0 l1 l' H1|x l0 l1 l' H1]; subst.
  - inversion H1 as [| |x l0 l1 l'' H2]; subst. inversion H2; subst. now left.
  - inversion H1 as [|x l0 l1 l'' H2|]; subst. inversion H2; subst. now right.
Qed.

Section Concurrency.
  Variable tx_valid_at : N -> N -> bool.
  Variable tx_conflict : N -> N -> bool.

  Notation set_state := (NodeModel.set_state tx_valid_at).
  Notation handle_tx := (NodeModel.handle_tx tx_valid_at tx_conflict).
  Notation admits := (NodeModel.admits tx_valid_at tx_conflict).
  Notation PoolInv := (NodeProofs.PoolInv tx_valid_at tx_conflict).

  (* what AValidate stores in the local flag *)
  Definition vflag (s : nstate) (t : N) (ok : bool) : bool :=
    admits s t ok && negb (existsb (N.eqb t) (ns_pool s)).

  (* what ACommit does to the shared state *)
  Definition commit (s : nstate) (f : bool) (t : N) : nstate :=
    if f then mkNS (ns_blocks s) (ns_head s) (ns_valid_blocks s) (ns_valid_head s) (ns_pool s ++ [t]) (ns_buffer s)
                   (ns_rows s)
    else s.

  (* AValidate followed by ACommit on the same shared state is exactly handle_tx's state effect *)
  Lemma commit_vflag s t ok : commit s (vflag s t ok) t = fst (handle_tx s t ok).
  Proof.
    unfold commit, vflag, NodeModel.handle_tx.
    destruct (existsb (N.eqb t) (ns_pool s)); cbn [negb]; [rewrite andb_false_r; reflexivity|].
    rewrite andb_true_r. destruct (admits s t ok); reflexivity.
  Qed.

  (* one thread (index i) executes its next action *)
  Inductive tstep (i : nat) : nstate * option nat * thread -> nstate * option nat * thread -> Prop :=
  | ts_acquire s f r : tstep i (s, None, (f, AAcquire :: r)) (s, Some i, (f, r))
  | ts_release s f r : tstep i (s, Some i, (f, ARelease :: r)) (s, None, (f, r))
  | ts_validate s lk f t ok r : tstep i (s, lk, (f, AValidate t ok :: r)) (s, lk, (vflag s t ok, r))
  | ts_commit s lk f t r : tstep i (s, lk, (f, ACommit t :: r)) (commit s f t, lk, (f, r))
  | ts_setstate s lk f b h v r : tstep i (s, lk, (f, ASetState b h v :: r)) (set_state s b h v, lk, (f, r)).

  (* either thread may move *)
  Inductive cstep : config -> config -> Prop :=
  | cstep_t0 s lk th0 th1 s' lk' th0' :
      tstep 0 (s, lk, th0) (s', lk', th0') -> cstep (s, lk, th0, th1) (s', lk', th0', th1)
  | cstep_t1 s lk th0 th1 s' lk' th1' :
      tstep 1 (s, lk, th1) (s', lk', th1') -> cstep (s, lk, th0, th1) (s', lk', th0, th1').

  Inductive csteps : config -> config -> Prop :=
  | cs_refl c : csteps c c
  | cs_step c1 c2 c3 : cstep c1 c2 -> csteps c2 c3 -> csteps c1 c3.

  Lemma csteps_trans c1 c2 c3 : csteps c1 c2 -> csteps c2 c3 -> csteps c1 c3.
  Proof. induction 1 as [|a b c Hab _ IH]; [auto|]. intros H. eapply cs_step; [exact Hab|now apply IH]. Qed.

  (* ---------------------------------------------------------------------------------------------------------- *)
  (* The sequential reference: critical sections run one after the other through the sequential handlers        *)

  Definition apply_sec (x : csec) (s : nstate) : nstate :=
    match x with
    | CAdmit t ok => fst (handle_tx s t ok)
    | CSet b h v => set_state s b h v
    end.

  Fixpoint run_secs (s : nstate) (l : list csec) : nstate :=
    match l with
    | [] => s
    | x :: r => run_secs (apply_sec x s) r
    end.

  (* ---------------------------------------------------------------------------------------------------------- *)
  (* Invariant of locked threads                                                                                 *)

  (* a thread outside its critical sections: the sections in l are still to be run *)
  Definition idle (th : thread) (l : list csec) : Prop := snd th = prog_of l.

  (* a thread holding the lock, the shared state being s: the state effects of the sections in l are still to come *)
  Inductive tphase (s : nstate) : thread -> list csec -> Prop :=
  | PhV f t ok l : tphase s (f, AValidate t ok :: ACommit t :: ARelease :: prog_of l) (CAdmit t ok :: l)
  | PhC t ok l : tphase s (vflag s t ok, ACommit t :: ARelease :: prog_of l) (CAdmit t ok :: l)
  | PhS f b h v l : tphase s (f, ASetState b h v :: ARelease :: prog_of l) (CSet b h v :: l)
  | PhR f l : tphase s (f, ARelease :: prog_of l) l.

  Definition CInv (c : config) (p0 p1 : list csec) : Prop :=
    let '(s, lk, th0, th1) := c in
    match lk with
    | None => idle th0 p0 /\ idle th1 p1
    | Some O => tphase s th0 p0 /\ idle th1 p1
    | Some (S O) => idle th0 p0 /\ tphase s th1 p1
    | Some _ => False
    end.

  Lemma idle_nil f l : idle (f, []) l -> l = [].
  Proof. unfold idle. cbn [snd]. destruct l as [|[t ok|b h v] l]; [reflexivity|discriminate|discriminate]. Qed.

  (* an idle thread can only acquire the free lock *)
  Lemma tstep_idle i s lk th l s' lk' th' :
    idle th l -> tstep i (s, lk, th) (s', lk', th') ->
    lk = None /\ lk' = Some i /\ s' = s /\ tphase s th' l.
  Proof.
    destruct th as [f acts]. unfold idle. cbn [snd]. intros -> Hst.
    destruct l as [|[t ok|b h v] l]; cbn in Hst; inversion Hst; subst; repeat split; constructor.
  Qed.

  (* a thread inside its critical section: a silent step, the section's state effect, or the release *)
  Lemma tstep_crit i s th l s' lk' th' :
    tphase s th l -> tstep i (s, Some i, th) (s', lk', th') ->
    (lk' = Some i /\ s' = s /\ tphase s' th' l) \/
    (lk' = Some i /\ exists x l', l = x :: l' /\ s' = apply_sec x s /\ tphase s' th' l') \/
    (lk' = None /\ s' = s /\ idle th' l).
  Proof.
    intros Hp Hst. destruct Hp as [f t ok l|t ok l|f b h v l|f l]; inversion Hst; subst.
    - left. repeat split. constructor.
    - right. left. split; [reflexivity|]. exists (CAdmit t ok), l. split; [reflexivity|].
      cbn [apply_sec]. rewrite commit_vflag. split; [reflexivity|constructor].
    - right. left. split; [reflexivity|]. exists (CSet b h v), l. repeat split. constructor.
    - right. right. repeat split.
  Qed.

  Lemma cstep_inv c c1 p0 p1 :
    CInv c p0 p1 -> cstep c c1 ->
    (CInv c1 p0 p1 /\ shared c1 = shared c) \/
    (exists x p0', p0 = x :: p0' /\ CInv c1 p0' p1 /\ shared c1 = apply_sec x (shared c)) \/
    (exists x p1', p1 = x :: p1' /\ CInv c1 p0 p1' /\ shared c1 = apply_sec x (shared c)).
  Proof.
    intros HI Hst. destruct Hst as [s lk th0 th1 s' lk' th0' H|s lk th0 th1 s' lk' th1' H]; cbn [CInv shared] in *.
    - destruct lk as [[|[|n]]|].
      + destruct HI as [Hp Hi]. destruct (tstep_crit _ _ _ _ _ _ _ Hp H) as [(-> & -> & Hp')|[(-> & x & l' & -> & -> & Hp')|(-> & -> & Hi')]].
        * left. auto.
        * right. left. exists x, l'. auto.
        * left. auto.
      + destruct HI as [Hi _]. apply (tstep_idle _ _ _ _ _ _ _ _ Hi) in H as (F & _). discriminate.
      + contradiction.
      + destruct HI as [Hi0 Hi1]. apply (tstep_idle _ _ _ _ _ _ _ _ Hi0) in H as (_ & -> & -> & Hp). left. auto.
    - destruct lk as [[|[|n]]|].
      + destruct HI as [_ Hi]. apply (tstep_idle _ _ _ _ _ _ _ _ Hi) in H as (F & _). discriminate.
      + destruct HI as [Hi Hp]. destruct (tstep_crit _ _ _ _ _ _ _ Hp H) as [(-> & -> & Hp')|[(-> & x & l' & -> & -> & Hp')|(-> & -> & Hi')]].
        * left. auto.
        * right. right. exists x, l'. auto.
        * left. auto.
      + contradiction.
      + destruct HI as [Hi0 Hi1]. apply (tstep_idle _ _ _ _ _ _ _ _ Hi1) in H as (_ & -> & -> & Hp). left. auto.
  Qed.

  Lemma CInv_finished c p0 p1 : CInv c p0 p1 -> finished c -> p0 = [] /\ p1 = [].
  Proof.
    destruct c as [[[s lk] [f0 a0]] [f1 a1]]. cbn [CInv finished snd]. intros HI [-> ->].
    destruct lk as [[|[|n]]|].
    - destruct HI as [Hp _]. inversion Hp.
    - destruct HI as [_ Hp]. inversion Hp.
    - contradiction.
    - destruct HI as [H0 H1]. split; eapply idle_nil; eassumption.
  Qed.

  Lemma locked_linearise_inv c c' :
    csteps c c' -> forall p0 p1, CInv c p0 p1 -> finished c' ->
    exists l, merge p0 p1 l /\ shared c' = run_secs (shared c) l.
  Proof.
    induction 1 as [c|c c1 c' Hst _ IH]; intros p0 p1 HI Hfin.
    - destruct (CInv_finished _ _ _ HI Hfin) as [-> ->]. exists []. split; [constructor|reflexivity].
    - destruct (cstep_inv _ _ _ _ HI Hst) as [(HI' & E)|[(x & p0' & -> & HI' & E)|(x & p1' & -> & HI' & E)]].
      + destruct (IH _ _ HI' Hfin) as (l & Hm & El). exists l. rewrite <- E. auto.
      + destruct (IH _ _ HI' Hfin) as (l & Hm & El). exists (x :: l). split; [now constructor|].
        cbn [run_secs]. rewrite <- E. exact El.
      + destruct (IH _ _ HI' Hfin) as (l & Hm & El). exists (x :: l). split; [now constructor|].
        cbn [run_secs]. rewrite <- E. exact El.
  Qed.

  (* 5: two threads, each a sequence of critical sections (admission or head change), both well locked: the final
     shared state is that of the sequential model on SOME interleaving of the two section lists *)
  Theorem locked_threads_linearise s f0 f1 l0 l1 c :
    csteps (s, None, (f0, prog_of l0), (f1, prog_of l1)) c -> finished c ->
    exists l, merge l0 l1 l /\ shared c = run_secs s l.
  Proof.
    intros H Hfin. apply (locked_linearise_inv _ _ H l0 l1); [|exact Hfin].
    cbn [CInv]. split; reflexivity.
  Qed.

  (* 2: one admission against one head change *)
  Theorem locked_interleavings_serialise s t ok blocks head v c :
    csteps (s, None, (false, prog_admit_locked t ok), (false, prog_set blocks head v)) c -> finished c ->
    shared c = set_state (fst (handle_tx s t ok)) blocks head v \/
    shared c = fst (handle_tx (set_state s blocks head v) t ok).
  Proof.
    intros H Hfin.
    destruct (locked_threads_linearise s false false [CAdmit t ok] [CSet blocks head v] c) as (l & Hm & E).
    - exact H.
    - exact Hfin.
    - apply merge_one_one in Hm as [-> | ->]; cbn [run_secs apply_sec] in E; auto.
  Qed.

  (* both orders do occur *)
  Theorem locked_both_orders_reachable s t ok blocks head v :
    (exists c, csteps (s, None, (false, prog_admit_locked t ok), (false, prog_set blocks head v)) c /\ finished c /\
               shared c = set_state (fst (handle_tx s t ok)) blocks head v) /\
    (exists c, csteps (s, None, (false, prog_admit_locked t ok), (false, prog_set blocks head v)) c /\ finished c /\
               shared c = fst (handle_tx (set_state s blocks head v) t ok)).
  Proof.
    split.
    - eexists. split.
      + eapply cs_step; [apply cstep_t0; apply ts_acquire|].
        eapply cs_step; [apply cstep_t0; apply ts_validate|].
        eapply cs_step; [apply cstep_t0; apply ts_commit|].
        eapply cs_step; [apply cstep_t0; apply ts_release|].
        eapply cs_step; [apply cstep_t1; apply ts_acquire|].
        eapply cs_step; [apply cstep_t1; apply ts_setstate|].
        eapply cs_step; [apply cstep_t1; apply ts_release|].
        apply cs_refl.
      + split; [split; reflexivity|]. cbn [shared]. rewrite commit_vflag. reflexivity.
    - eexists. split.
      + eapply cs_step; [apply cstep_t1; apply ts_acquire|].
        eapply cs_step; [apply cstep_t1; apply ts_setstate|].
        eapply cs_step; [apply cstep_t1; apply ts_release|].
        eapply cs_step; [apply cstep_t0; apply ts_acquire|].
        eapply cs_step; [apply cstep_t0; apply ts_validate|].
        eapply cs_step; [apply cstep_t0; apply ts_commit|].
        eapply cs_step; [apply cstep_t0; apply ts_release|].
        apply cs_refl.
      + split; [split; reflexivity|]. cbn [shared]. rewrite commit_vflag. reflexivity.
  Qed.

  (* ---------------------------------------------------------------------------------------------------------- *)
  (* PoolInv                                                                                                     *)

  Hypothesis conflict_sym : forall a b, tx_conflict a b = tx_conflict b a.

  Lemma set_state_pool_inv s blocks head v : PoolInv s -> PoolInv (set_state s blocks head v).
  Proof. intros HP. eapply PoolInv_cleanup; [exact HP|reflexivity]. Qed.

  Lemma handle_tx_fst_pool_inv s t ok : PoolInv s -> PoolInv (fst (handle_tx s t ok)).
  Proof.
    intros HP. destruct (handle_tx s t ok) as [s' o] eqn:E. cbn [fst].
    eapply handle_tx_pool_inv; [exact conflict_sym|exact HP|exact E].
  Qed.

  Lemma apply_sec_pool_inv x s : PoolInv s -> PoolInv (apply_sec x s).
  Proof. destruct x; cbn [apply_sec]; [apply handle_tx_fst_pool_inv|apply set_state_pool_inv]. Qed.

  Lemma run_secs_pool_inv l : forall s, PoolInv s -> PoolInv (run_secs s l).
  Proof. induction l as [|x l IH]; intros s HP; cbn [run_secs]; [assumption|]. apply IH. now apply apply_sec_pool_inv. Qed.

  (* 3 *)
  Corollary locked_interleavings_preserve_PoolInv s t ok blocks head v c :
    PoolInv s ->
    csteps (s, None, (false, prog_admit_locked t ok), (false, prog_set blocks head v)) c -> finished c ->
    PoolInv (shared c).
  Proof.
    intros HP H Hfin. destruct (locked_interleavings_serialise _ _ _ _ _ _ _ H Hfin) as [-> | ->].
    - apply set_state_pool_inv. now apply handle_tx_fst_pool_inv.
    - apply handle_tx_fst_pool_inv. now apply set_state_pool_inv.
  Qed.

  Corollary locked_threads_preserve_PoolInv s f0 f1 l0 l1 c :
    PoolInv s -> csteps (s, None, (f0, prog_of l0), (f1, prog_of l1)) c -> finished c -> PoolInv (shared c).
  Proof.
    intros HP H Hfin. destruct (locked_threads_linearise _ _ _ _ _ _ H Hfin) as (l & _ & ->).
    now apply run_secs_pool_inv.
  Qed.
End Concurrency.

(* ------------------------------------------------------------------------------------------------------------ *)
(* 4: validation hoisted out of the critical section.  Tx 2 is valid at head 0 and not at head 1 (ex_valid);
   thread 0 validates it against head 0, thread 1 installs head 1 (the pool, empty, is filtered), thread 0 then
   takes the lock and commits the stale verdict: tx 2 sits in the pool of a state whose head rejects it. *)

Theorem unlocked_admission_refuted :
  exists (tx_valid_at tx_conflict : N -> N -> bool),
    (forall a b, tx_conflict a b = tx_conflict b a) /\
    exists s t ok blocks head v c,
      PoolInv tx_valid_at tx_conflict s /\
      csteps tx_valid_at tx_conflict
             (s, None, (false, prog_admit_unlocked t ok), (false, prog_set blocks head v)) c /\
      finished c /\
      ~ PoolInv tx_valid_at tx_conflict (shared c).
Proof.
  exists (fun h t => N.even (h + t)), (fun _ _ => false). split; [reflexivity|].
  exists (mkNS [mkAB 0 0 0] 0 [mkAB 0 0 0] 0 [] [] [0]), 2, true, [mkAB 0 0 0; mkAB 1 0 1], 1, true.
  eexists. split; [|split; [|split]].
  - repeat split; constructor.
  - eapply cs_step; [apply cstep_t0; apply ts_validate|].
    eapply cs_step; [apply cstep_t1; apply ts_acquire|].
    eapply cs_step; [apply cstep_t1; apply ts_setstate|].
    eapply cs_step; [apply cstep_t1; apply ts_release|].
    eapply cs_step; [apply cstep_t0; apply ts_acquire|].
    eapply cs_step; [apply cstep_t0; apply ts_commit|].
    eapply cs_step; [apply cstep_t0; apply ts_release|].
    apply cs_refl.
  - split; reflexivity.
  - vm_compute. intros (H & _). inversion H as [|x l Hx Hl]. discriminate Hx.
Qed.

(* the same schedule with the locked program is impossible: the final state there is one of the two sequential
   results, and both satisfy PoolInv (instance of the corollary at the counterexample's data) *)
Example locked_admission_same_data_ok c :
  csteps (fun h t => N.even (h + t)) (fun _ _ => false)
         (mkNS [mkAB 0 0 0] 0 [mkAB 0 0 0] 0 [] [] [0], None, (false, prog_admit_locked 2 true),
          (false, prog_set [mkAB 0 0 0; mkAB 1 0 1] 1 true)) c ->
  finished c -> PoolInv (fun h t => N.even (h + t)) (fun _ _ => false) (shared c).
Proof.
  intros H Hfin. eapply locked_interleavings_preserve_PoolInv; [reflexivity| |exact H|exact Hfin].
  repeat split; constructor.
Qed.

Print Assumptions locked_interleavings_serialise.
Print Assumptions locked_both_orders_reachable.
Print Assumptions locked_interleavings_preserve_PoolInv.
Print Assumptions locked_threads_linearise.
Print Assumptions locked_threads_preserve_PoolInv.
Print Assumptions unlocked_admission_refuted.
