(* Convergence of initial block download (IBD) in the LINEAR case, over model/Sync.v (Section Round).

   One round: the requester (chain `rc`, ids by height, genesis first) announces `locator_ids rc`, the server
   (active chain `main`) answers `serve batch main height_of (locator_ids rc)`, the requester appends the reply:
       round rc = rc ++ serve batch main height_of (locator_ids rc).

   SCOPE.  Everything below assumes that the requester's chain is a PREFIX of the server's active chain
   (`prefix_of rc`): a fresh node that only has genesis, or a node that simply fell behind.
   The FORKED case (the requester's tip lies on a different branch than the server's active chain, so that the
   requester would have to find the fork point through the deeper locator entries and then reorganise) is NOT
   covered by any theorem of this file.  In that case `round` (which blindly appends the reply to `rc`) is not even a
   meaningful model of the requester; see `ex_forked_round_not_a_chain` at the end for what the definition computes.
   Also not modelled here: several peers, lost / reordered messages, invalid blocks, a server whose chain changes
   between rounds.

   Stdlib style only. *)
From Coq Require Import NArith ZArith List Bool Arith Lia.
From Coq Require Import ZifyBool ZifyN ZifyNat.
From SkV Require Import Sync SyncProofs.
Import ListNotations.
Open Scope N_scope.
Ltac Zify.zify_post_hook ::= Z.to_euclidean_division_equations.

(* ------------------------------------------------------------------ *)
(* generic facts                                                        *)
(* ------------------------------------------------------------------ *)

Lemma skipn_app_exact {A} (l r : list A) : skipn (length l) (l ++ r) = r.
Proof. induction l as [|a l IH]; [reflexivity|exact IH]. Qed.

Lemma app_same_length_nil {A} (l r : list A) : length (l ++ r) = length l -> r = [].
Proof.
  rewrite app_length. intros H. destruct r as [|a r]; [reflexivity|]. cbn [length] in H. lia.
Qed.

Lemma oldness_head : exists r, oldness = 0 :: r.
Proof. eexists. vm_compute. reflexivity. Qed.

(* the locator heights start with the head height itself *)
Lemma recent_heights_cons h : exists tl, recent_heights h = h :: tl.
Proof.
  destruct oldness_head as [r Hr]. unfold recent_heights. rewrite Hr. cbn [filter].
  replace (0 <=? h) with true by lia. cbn [map]. rewrite N.sub_0_r. eexists. reflexivity.
Qed.

(* 1 (general form, needs no hypothesis on the server): the first announced id is the requester's tip *)
Lemma locator_head_gen rc : rc <> [] -> exists tl, locator_ids rc = last rc 0 :: tl.
Proof.
  intros Hrc. unfold locator_ids.
  destruct (recent_heights_cons (N.of_nat (length rc) - 1)) as [tl ->]. cbn [flat_map].
  replace (N.to_nat (N.of_nat (length rc) - 1)) with (length rc - 1)%nat by lia.
  rewrite (last_nth_error rc 0 Hrc). cbn [app]. eexists. reflexivity.
Qed.

Lemma rounds_add batch main height_of n m rc :
  rounds batch main height_of (n + m) rc = rounds batch main height_of m (rounds batch main height_of n rc).
Proof. revert rc. induction n as [|n IH]; intros rc; [reflexivity|]. cbn [Nat.add rounds]. apply IH. Qed.

(* ------------------------------------------------------------------ *)
(* the linear case                                                      *)
(* ------------------------------------------------------------------ *)

Section RoundProofs.
  Variable batch : N.
  Variable main : list N.
  Variable height_of : N -> option N.

  Notation round := (round batch main height_of).
  Notation rounds := (rounds batch main height_of).

  (* the requester's chain is an initial segment of the server's active chain *)
  Definition prefix_of (rc : list N) : Prop := exists rest, main = rc ++ rest.

  Lemma prefix_of_length rc : prefix_of rc -> (length rc <= length main)%nat.
  Proof. intros [rest Hr]. rewrite Hr at 1. rewrite app_length. lia. Qed.

  Lemma prefix_of_full rc : prefix_of rc -> length rc = length main -> rc = main.
  Proof.
    intros [rest Hr] Hl. assert (rest = []) as ->.
    { apply (app_same_length_nil rc). rewrite <- Hr. symmetry. exact Hl. }
    rewrite app_nil_r in Hr. symmetry. exact Hr.
  Qed.

  (* 1 *)
  Theorem locator_head rc :
    rc <> [] -> prefix_of rc -> exists tl, locator_ids rc = last rc 0 :: tl.
  Proof. intros Hrc _. apply locator_head_gen; exact Hrc. Qed.

  (* the requester's tip is the server's active block at height length rc - 1 *)
  Lemma prefix_tip rc :
    rc <> [] -> prefix_of rc -> main_at main (N.of_nat (length rc) - 1) = Some (last rc 0).
  Proof.
    intros Hrc [rest Hr]. unfold main_at.
    replace (N.to_nat (N.of_nat (length rc) - 1)) with (length rc - 1)%nat by lia.
    assert (Hpos : (0 < length rc)%nat) by (destruct rc; [congruence|cbn; lia]).
    rewrite Hr. rewrite nth_error_app1 by lia. apply last_nth_error; exact Hrc.
  Qed.

  Lemma round_nonempty rc : rc <> [] -> round rc <> [].
  Proof. unfold Sync.round. destruct rc; [congruence|discriminate]. Qed.

  (* --- hypotheses on the server --- *)
  Hypothesis Hne : main <> [].
  Hypothesis Hcons : forall i h, nth_error main (N.to_nat h) = Some i -> height_of i = Some h.
  Hypothesis Hb : 0 < batch.

  (* exact reply of the server in the linear case: the next min(batch, remaining) ids of the active chain *)
  Lemma round_reply rc rest :
    rc <> [] -> main = rc ++ rest ->
    serve batch main height_of (locator_ids rc) = firstn (N.to_nat batch) rest.
  Proof using Hne Hcons Hb.
    intros Hrc Hr.
    assert (Hp : prefix_of rc) by (exists rest; exact Hr).
    destruct (locator_head_gen rc Hrc) as [tl Hloc]. rewrite Hloc.
    set (hs := N.of_nat (length rc) - 1).
    assert (Hpos : (0 < length rc)%nat) by (destruct rc; [congruence|cbn; lia]).
    assert (Hlen : length main = (length rc + length rest)%nat) by (rewrite Hr at 1; apply app_length).
    pose proof (prefix_tip rc Hrc Hp) as Htip. fold hs in Htip.
    assert (Hh : height_of (last rc 0) = Some hs) by (apply Hcons; exact Htip).
    destruct (Nat.eq_dec (length rest) 0) as [E|E].
    - (* the tip is the server's head: "no new info" *)
      assert (rest = []) as -> by (destruct rest; [reflexivity|cbn in E; lia]).
      rewrite firstn_nil.
      apply (serve_no_new_info_gen main height_of Hne batch [] (last rc 0) tl hs); auto.
      unfold head_height. cbn [length] in Hlen. lia.
    - (* the tip is a hit: start = length rc *)
      assert (Hlt : hs < head_height main) by (unfold head_height; lia).
      assert (Esc : scan main height_of (last rc 0 :: tl) = Some (Some (hs + 1))).
      { apply scan_cons_hit. repeat split; auto. apply (main_at_some_iff main height_of Hne). lia. }
      rewrite (serve_spec main height_of Hne batch). unfold start_of. rewrite Esc.
      replace (N.to_nat (hs + 1)) with (length rc) by lia.
      assert (Hskip : skipn (length rc) main = rest) by (rewrite Hr; apply skipn_app_exact).
      assert (Hk : reply_len main batch (hs + 1) = Nat.min (N.to_nat batch) (length rest))
        by (unfold reply_len, head_height; lia).
      rewrite Hskip, Hk.
      destruct (Nat.min_spec (N.to_nat batch) (length rest)) as [[_ ->]|[Hle ->]]; [reflexivity|].
      rewrite !firstn_all2 by lia. reflexivity.
  Qed.

  (* 2 *)
  Theorem round_prefix rc :
    rc <> [] -> prefix_of rc ->
    prefix_of (round rc) /\
    length (round rc) = Nat.min (length main) (length rc + N.to_nat batch).
  Proof using Hne Hcons Hb.
    intros Hrc [rest Hr]. unfold Sync.round. rewrite (round_reply rc rest Hrc Hr).
    assert (Hlen : length main = (length rc + length rest)%nat) by (rewrite Hr at 1; apply app_length).
    split.
    - exists (skipn (N.to_nat batch) rest). rewrite <- app_assoc, firstn_skipn. exact Hr.
    - rewrite app_length, firstn_length. lia.
  Qed.

  (* 3 *)
  Theorem rounds_converge rc :
    rc <> [] -> prefix_of rc ->
    forall n, prefix_of (rounds n rc) /\
              length (rounds n rc) = Nat.min (length main) (length rc + n * N.to_nat batch).
  Proof using Hne Hcons Hb.
    intros Hrc Hp n. revert rc Hrc Hp. induction n as [|n IH]; intros rc Hrc Hp.
    - cbn [Sync.rounds]. split; [exact Hp|]. pose proof (prefix_of_length rc Hp). lia.
    - cbn [Sync.rounds]. destruct (round_prefix rc Hrc Hp) as [Hp' Hl'].
      destruct (IH (round rc) (round_nonempty rc Hrc) Hp') as [Hp'' Hl''].
      split; [exact Hp''|]. rewrite Hl'', Hl'. lia.
  Qed.

  (* the server's own chain is a fixed point of a round *)
  Theorem round_main_fixed : round main = main.
  Proof using Hne Hcons Hb.
    assert (Hp : prefix_of main) by (exists []; symmetry; apply app_nil_r).
    destruct (round_prefix main Hne Hp) as [Hp' Hl']. apply prefix_of_full; [exact Hp'|]. lia.
  Qed.

  Corollary rounds_main_fixed m : rounds m main = main.
  Proof using Hne Hcons Hb.
    induction m as [|m IH]; [reflexivity|]. cbn [Sync.rounds]. rewrite round_main_fixed. exact IH.
  Qed.

  (* explicit number of rounds: anything >= ceil((length main - length rc) / batch); length main always suffices *)
  Theorem ibd_reaches rc n :
    rc <> [] -> prefix_of rc ->
    (length main <= length rc + n * N.to_nat batch)%nat -> rounds n rc = main.
  Proof using Hne Hcons Hb.
    intros Hrc Hp Hn. destruct (rounds_converge rc Hrc Hp n) as [Hp' Hl'].
    apply prefix_of_full; [exact Hp'|]. lia.
  Qed.

  (* and before that the download is not finished *)
  Theorem ibd_not_before rc n :
    rc <> [] -> prefix_of rc ->
    (length rc + n * N.to_nat batch < length main)%nat -> rounds n rc <> main.
  Proof using Hne Hcons Hb.
    intros Hrc Hp Hn E. destruct (rounds_converge rc Hrc Hp n) as [_ Hl']. rewrite E in Hl'. lia.
  Qed.

  Corollary ibd_terminates rc :
    rc <> [] -> prefix_of rc -> exists n, rounds n rc = main.
  Proof using Hne Hcons Hb.
    intros Hrc Hp. exists (length main). apply ibd_reaches; auto.
    assert (1 <= N.to_nat batch)%nat by lia. nia.
  Qed.

  (* once reached, further rounds change nothing *)
  Corollary ibd_stable rc m :
    rc <> [] -> prefix_of rc -> rounds (length main + m) rc = main.
  Proof using Hne Hcons Hb.
    intros Hrc Hp. rewrite rounds_add.
    assert (E : rounds (length main) rc = main).
    { apply ibd_reaches; auto. assert (1 <= N.to_nat batch)%nat by lia. nia. }
    rewrite E. apply rounds_main_fixed.
  Qed.

  (* monotone: a round never removes anything, and the chain only grows along main *)
  Corollary round_extends rc : rc <> [] -> prefix_of rc -> exists ext, round rc = rc ++ ext /\ prefix_of (rc ++ ext).
  Proof using Hne Hcons Hb.
    intros Hrc Hp. exists (serve batch main height_of (locator_ids rc)). split; [reflexivity|].
    exact (proj1 (round_prefix rc Hrc Hp)).
  Qed.
End RoundProofs.

(* ------------------------------------------------------------------ *)
(* non-vacuity                                                          *)
(* ------------------------------------------------------------------ *)

Definition ibd_main : list N := [100; 101; 102; 103; 104; 105; 106; 107; 108; 109].
Definition ibd_height_of (i : N) : option N :=
  if (100 <=? i) && (i <=? 109) then Some (i - 100) else None.

Lemma ibd_main_ne : ibd_main <> [].
Proof. discriminate. Qed.

Lemma ibd_cons : forall i h, nth_error ibd_main (N.to_nat h) = Some i -> ibd_height_of i = Some h.
Proof.
  intros i h H.
  destruct (N.to_nat h) as [|[|[|[|[|[|[|[|[|[|n]]]]]]]]]] eqn:E; cbn in H;
    try (injection H as <-; vm_compute; f_equal; lia).
  destruct n; discriminate.
Qed.

Lemma ibd_prefix_genesis : prefix_of ibd_main [100].
Proof. eexists. reflexivity. Qed.

(* fresh node holding only genesis, batch 4: 1 -> 5 -> 9 -> 10 blocks *)
Example ex_ibd_round1 : round 4 ibd_main ibd_height_of [100] = [100; 101; 102; 103; 104].
Proof. vm_compute. reflexivity. Qed.
Example ex_ibd_rounds2 : rounds 4 ibd_main ibd_height_of 2 [100] = [100; 101; 102; 103; 104; 105; 106; 107; 108].
Proof. vm_compute. reflexivity. Qed.
Example ex_ibd_rounds3 : rounds 4 ibd_main ibd_height_of 3 [100] = ibd_main.
Proof. vm_compute. reflexivity. Qed.
Example ex_ibd_rounds7 : rounds 4 ibd_main ibd_height_of 7 [100] = ibd_main.
Proof. vm_compute. reflexivity. Qed.

(* the same facts obtained from the general theorems: the hypotheses are satisfiable *)
Example ex_ibd_rounds3_thm : rounds 4 ibd_main ibd_height_of 3 [100] = ibd_main.
Proof.
  apply (ibd_reaches 4 ibd_main ibd_height_of ibd_main_ne ibd_cons); [reflexivity|discriminate|
    exact ibd_prefix_genesis|cbn; lia].
Qed.
Example ex_ibd_rounds2_thm : rounds 4 ibd_main ibd_height_of 2 [100] <> ibd_main.
Proof.
  apply (ibd_not_before 4 ibd_main ibd_height_of ibd_main_ne ibd_cons); [reflexivity|discriminate|
    exact ibd_prefix_genesis|cbn; lia].
Qed.
Example ex_ibd_terminates : exists n, rounds 4 ibd_main ibd_height_of n [100] = ibd_main.
Proof.
  apply (ibd_terminates 4 ibd_main ibd_height_of ibd_main_ne ibd_cons); [reflexivity|discriminate|
    exact ibd_prefix_genesis].
Qed.

(* NOT COVERED: a forked requester.  Requester chain [100; 201; 202] where 201, 202 are unknown to the server:
   the locator is [202; 201; 100], the server skips the two unknown ids, finds 100 and replies with the active chain
   from height 1; `round` just appends that reply, and the result is not a chain at all (and not a prefix of main).
   So the definitions of `round`/`rounds` say nothing useful about forked requesters, and neither does this file. *)
Example ex_forked_round_not_a_chain :
  round 4 ibd_main ibd_height_of [100; 201; 202] = [100; 201; 202; 101; 102; 103; 104]
  /\ ~ prefix_of ibd_main (round 4 ibd_main ibd_height_of [100; 201; 202]).
Proof.
  split; [vm_compute; reflexivity|]. intros [rest H]. vm_compute in H. discriminate.
Qed.

