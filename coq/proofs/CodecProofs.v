(* Proofs about the byte-level codecs of model/Codec.v: for every codec pair
     (R) round trip            wf x = true -> dec (enc x ++ r) = Some (x, r)
     (C) canonicity            bytes_wf bs -> dec bs = Some (x, r) -> enc x ++ r = bs
     (W) decoded values wf     bytes_wf bs -> dec bs = Some (x, r) -> wf x = true /\ bytes_wf r
     (E) encodings are bytes   wf x = true -> bytes_wf (enc x)
   and the consequences used by the property theorems (cached ids, injectivity of encodings, signable). *)
From Coq Require Import NArith List Lia ZArith Bool Arith.
From Coq Require Import ZifyBool ZifyN ZifyNat.
From SkV Require Import Bytes Vlq Codec VlqProofs.
Import ListNotations.
Open Scope N_scope.
Ltac Zify.zify_post_hook ::= Z.to_euclidean_division_equations.

(* ================= primitives ================= *)

Lemma bytes_wfb_iff b : bytes_wfb b = true <-> bytes_wf b.
Proof.
  unfold bytes_wfb, bytes_wf. rewrite forallb_forall, Forall_forall.
  split; intros H x Hx; specialize (H x Hx); lia.
Qed.

Lemma bytes_wf_app a b : bytes_wf (a ++ b) <-> bytes_wf a /\ bytes_wf b.
Proof. apply Forall_app. Qed.

Lemma bytes_wf_app_r a b : bytes_wf (a ++ b) -> bytes_wf b.
Proof. intros H. apply bytes_wf_app in H. tauto. Qed.

Lemma bytes_wf_cons x b : bytes_wf (x :: b) <-> x < 256 /\ bytes_wf b.
Proof. unfold bytes_wf. split; [intros H; inversion H; auto | intros [H1 H2]; constructor; auto]. Qed.

Lemma bytes_wf_nil : bytes_wf [].
Proof. constructor. Qed.

Lemma len_is_iff n b : len_is n b = true <-> length b = n /\ bytes_wf b.
Proof. unfold len_is. rewrite andb_true_iff, Nat.eqb_eq, bytes_wfb_iff. tauto. Qed.

Lemma len_is_wf n b : len_is n b = true -> bytes_wf b.
Proof. intros H. apply len_is_iff in H. tauto. Qed.

Lemma len_is_length n b : len_is n b = true -> length b = n.
Proof. intros H. apply len_is_iff in H. tauto. Qed.

(* ---- take ---- *)
Lemma take_app n a r : length a = n -> take n (a ++ r) = Some (a, r).
Proof.
  intros <-. unfold take. rewrite app_length.
  assert (Hle : (length a <=? length a + length r)%nat = true) by (apply Nat.leb_le; lia).
  rewrite Hle. rewrite firstn_app, Nat.sub_diag, firstn_all, firstn_O, app_nil_r.
  rewrite skipn_app, Nat.sub_diag, skipn_all. reflexivity.
Qed.

Lemma take_inv n bs a r : take n bs = Some (a, r) -> bs = a ++ r /\ length a = n.
Proof.
  unfold take. destruct (n <=? length bs)%nat eqn:E; [|discriminate].
  intros H; inversion H; subst; clear H. split.
  - symmetry. apply firstn_skipn.
  - apply firstn_length_le. apply Nat.leb_le. exact E.
Qed.

Lemma take_rt n a r : len_is n a = true -> take n (a ++ r) = Some (a, r).
Proof. intros H. apply take_app. apply len_is_length. exact H. Qed.

Lemma take_inv_wf n bs a r : bytes_wf bs -> take n bs = Some (a, r) ->
  bs = a ++ r /\ len_is n a = true /\ bytes_wf r.
Proof.
  intros Hwf H. apply take_inv in H as [-> Hl]. apply bytes_wf_app in Hwf as [Ha Hr].
  split; [reflexivity|]. split; [|exact Hr]. apply len_is_iff. split; assumption.
Qed.

(* ---- fixed-width big endian ---- *)
Lemma be_dec_aux_snoc acc a b : be_dec_aux acc (a ++ [b]) = be_dec_aux acc a * 256 + b.
Proof. revert acc; induction a as [|x a IH]; intros acc; cbn [app be_dec_aux]; [reflexivity|apply IH]. Qed.

Lemma be_dec_snoc a b : be_dec (a ++ [b]) = be_dec a * 256 + b.
Proof. apply be_dec_aux_snoc. Qed.

Lemma be_enc_S w v : be_enc (S w) v = be_enc w (v / 256) ++ [v mod 256].
Proof. reflexivity. Qed.

Lemma be_enc_length w v : length (be_enc w v) = w.
Proof.
  revert v; induction w as [|w IH]; intros v; [reflexivity|].
  rewrite be_enc_S, app_length, IH. cbn [length]. lia.
Qed.

Lemma be_enc_wf w v : bytes_wf (be_enc w v).
Proof.
  revert v; induction w as [|w IH]; intros v; [constructor|].
  rewrite be_enc_S. apply bytes_wf_app. split; [apply IH|].
  apply bytes_wf_cons. split; [lia|constructor].
Qed.

Lemma pow256_pos n : 0 < 256 ^ n.
Proof. apply N.neq_0_lt_0, N.pow_nonzero; lia. Qed.

Lemma be_dec_enc w : forall v, v < 256 ^ N.of_nat w -> be_dec (be_enc w v) = v.
Proof.
  induction w as [|w IH]; intros v Hv.
  - change (N.of_nat 0) with 0 in Hv. rewrite N.pow_0_r in Hv. cbn. lia.
  - rewrite be_enc_S, be_dec_snoc. rewrite Nat2N.inj_succ, N.pow_succ_r' in Hv.
    rewrite IH; [lia|]. apply N.div_lt_upper_bound; lia.
Qed.

Lemma be_dec_bound h : bytes_wf h -> be_dec h < 256 ^ N.of_nat (length h).
Proof.
  induction h as [|b h IH] using rev_ind; intros Hwf.
  - cbn. lia.
  - apply bytes_wf_app in Hwf as [Hh Hb]. apply bytes_wf_cons in Hb as [Hb _].
    specialize (IH Hh). rewrite be_dec_snoc, app_length. cbn [length]. rewrite Nat.add_1_r.
    rewrite Nat2N.inj_succ, N.pow_succ_r'. lia.
Qed.

Lemma be_enc_dec h : bytes_wf h -> be_enc (length h) (be_dec h) = h.
Proof.
  induction h as [|b h IH] using rev_ind; intros Hwf; [reflexivity|].
  apply bytes_wf_app in Hwf as [Hh Hb]. apply bytes_wf_cons in Hb as [Hb _].
  rewrite app_length. cbn [length]. rewrite Nat.add_1_r, be_enc_S, be_dec_snoc.
  assert (H1 : (be_dec h * 256 + b) / 256 = be_dec h) by lia.
  assert (H2 : (be_dec h * 256 + b) mod 256 = b) by lia.
  rewrite H1, H2, IH by exact Hh. reflexivity.
Qed.

Lemma be_enc_dec_w w h : length h = w -> bytes_wf h -> be_enc w (be_dec h) = h.
Proof. intros <-. apply be_enc_dec. Qed.

Lemma dec_be_rt w v r : v < 256 ^ N.of_nat w -> dec_be w (be_enc w v ++ r) = Some (v, r).
Proof.
  intros Hv. unfold dec_be. rewrite take_app by apply be_enc_length. rewrite be_dec_enc by exact Hv. reflexivity.
Qed.

Lemma dec_be_inv w bs v r : bytes_wf bs -> dec_be w bs = Some (v, r) ->
  bs = be_enc w v ++ r /\ v < 256 ^ N.of_nat w /\ bytes_wf r.
Proof.
  intros Hwf H. unfold dec_be in H. destruct (take w bs) as [[h r0]|] eqn:E; [|discriminate].
  inversion H; subst; clear H. apply take_inv in E as [-> Hl]. apply bytes_wf_app in Hwf as [Hh Hr].
  subst w. split; [|split; [|exact Hr]].
  - f_equal. symmetry. apply be_enc_dec. exact Hh.
  - apply be_dec_bound. exact Hh.
Qed.

Lemma pow256_1 : 256 ^ N.of_nat 1 = 256.      Proof. reflexivity. Qed.
Lemma pow256_4 : 256 ^ N.of_nat 4 = 2 ^ 32.   Proof. reflexivity. Qed.
Lemma pow256_8 : 256 ^ N.of_nat 8 = 2 ^ 64.   Proof. reflexivity. Qed.

Lemma dec_be1_rt v r : (v <? 256) = true -> dec_be 1 (be_enc 1 v ++ r) = Some (v, r).
Proof. intros H. apply dec_be_rt. rewrite pow256_1. apply N.ltb_lt, H. Qed.
Lemma dec_be4_rt v r : (v <? 2 ^ 32) = true -> dec_be 4 (be_enc 4 v ++ r) = Some (v, r).
Proof. intros H. apply dec_be_rt. rewrite pow256_4. apply N.ltb_lt, H. Qed.
Lemma dec_be8_rt v r : (v <? 2 ^ 64) = true -> dec_be 8 (be_enc 8 v ++ r) = Some (v, r).
Proof. intros H. apply dec_be_rt. rewrite pow256_8. apply N.ltb_lt, H. Qed.

Lemma dec_be1_inv bs v r : bytes_wf bs -> dec_be 1 bs = Some (v, r) ->
  bs = be_enc 1 v ++ r /\ (v <? 256) = true /\ bytes_wf r.
Proof. intros Hwf H. destruct (dec_be_inv _ _ _ _ Hwf H) as (H1 & H2 & H3). rewrite pow256_1 in H2.
  split; [exact H1|]. split; [apply N.ltb_lt, H2|exact H3]. Qed.
Lemma dec_be4_inv bs v r : bytes_wf bs -> dec_be 4 bs = Some (v, r) ->
  bs = be_enc 4 v ++ r /\ (v <? 2 ^ 32) = true /\ bytes_wf r.
Proof. intros Hwf H. destruct (dec_be_inv _ _ _ _ Hwf H) as (H1 & H2 & H3). rewrite pow256_4 in H2.
  split; [exact H1|]. split; [apply N.ltb_lt, H2|exact H3]. Qed.
Lemma dec_be8_inv bs v r : bytes_wf bs -> dec_be 8 bs = Some (v, r) ->
  bs = be_enc 8 v ++ r /\ (v <? 2 ^ 64) = true /\ bytes_wf r.
Proof. intros Hwf H. destruct (dec_be_inv _ _ _ _ Hwf H) as (H1 & H2 & H3). rewrite pow256_8 in H2.
  split; [exact H1|]. split; [apply N.ltb_lt, H2|exact H3]. Qed.

(* ---- vlq in the same "inversion" shape ---- *)
Lemma vlq_inv bs v r : bytes_wf bs -> vlq_dec bs = Some (v, r) -> bs = vlq_enc v ++ r /\ True /\ bytes_wf r.
Proof.
  intros Hwf H. pose proof (vlq_canonical _ _ _ Hwf H) as Hc. subst bs.
  split; [reflexivity|]. split; [exact I|]. eapply bytes_wf_app_r; exact Hwf.
Qed.

(* ---- consumed ---- *)
Lemma consumed_app a r : consumed (a ++ r) r = a.
Proof.
  unfold consumed. rewrite app_length.
  replace (length a + length r - length r)%nat with (length a) by lia.
  rewrite firstn_app, Nat.sub_diag, firstn_all, firstn_O, app_nil_r. reflexivity.
Qed.

(* ================= the generic list codec ================= *)
Section ListCodecProofs.
  Context {A : Type} (wf : A -> bool) (enc : A -> bytes) (dec : bytes -> option (A * bytes)).
  Hypothesis R : forall x r, wf x = true -> dec (enc x ++ r) = Some (x, r).
  Hypothesis C : forall bs x r, bytes_wf bs -> dec bs = Some (x, r) -> enc x ++ r = bs.
  Hypothesis W : forall bs x r, bytes_wf bs -> dec bs = Some (x, r) -> wf x = true /\ bytes_wf r.
  Hypothesis E : forall x, wf x = true -> bytes_wf (enc x).
  (* every element encoding is non-empty: dec_elems uses the remaining length as fuel *)
  Hypothesis NE : forall x, wf x = true -> (0 < length (enc x))%nat.

  Lemma dec_elems_eq fuel count bs :
    dec_elems dec fuel count bs =
    if count =? 0 then Some ([], bs) else
    match fuel with
    | O => None
    | S f => match dec bs with
             | Some (x, r) => match dec_elems dec f (count - 1) r with
                              | Some (xs, r') => Some (x :: xs, r')
                              | None => None
                              end
             | None => None
             end
    end.
  Proof using Type. clear R C W E NE wf. destruct fuel; reflexivity. Qed.

  Lemma concat_enc_length l : forallb wf l = true -> (length l <= length (concat (map enc l)))%nat.
  Proof using NE. clear R C W E.
    induction l as [|x l IH]; intros H; [cbn; lia|].
    cbn [forallb] in H. apply andb_true_iff in H as [Hx Hl].
    cbn [map concat length]. rewrite app_length. specialize (IH Hl). pose proof (NE x Hx). lia.
  Qed.

  Lemma dec_elems_rt l : forall fuel r, forallb wf l = true -> (length l <= fuel)%nat ->
    dec_elems dec fuel (N.of_nat (length l)) (concat (map enc l) ++ r) = Some (l, r).
  Proof using R. clear C W E NE.
    induction l as [|x l IH]; intros fuel r Hwf Hf.
    - rewrite dec_elems_eq. reflexivity.
    - cbn [forallb] in Hwf. apply andb_true_iff in Hwf as [Hx Hl]. cbn [length] in *.
      destruct fuel as [|f]; [lia|]. rewrite dec_elems_eq.
      assert (Hnz : (N.of_nat (S (length l)) =? 0) = false) by lia. rewrite Hnz.
      cbn [map concat]. rewrite <- app_assoc, (R x _ Hx).
      replace (N.of_nat (S (length l)) - 1) with (N.of_nat (length l)) by lia.
      rewrite IH by (try assumption; lia). reflexivity.
  Qed.

  Theorem dec_list_roundtrip l r : forallb wf l = true ->
    dec_list dec (enc_list enc l ++ r) = Some (l, r).
  Proof using R NE. clear C W E.
    intros Hwf. unfold dec_list, enc_list. rewrite <- app_assoc, vlq_roundtrip.
    apply dec_elems_rt; [exact Hwf|]. rewrite app_length. pose proof (concat_enc_length l Hwf). lia.
  Qed.

  Lemma dec_elems_canon fuel : forall count bs l r, bytes_wf bs -> dec_elems dec fuel count bs = Some (l, r) ->
    count = N.of_nat (length l) /\ concat (map enc l) ++ r = bs.
  Proof using C. clear R W E NE wf.
    induction fuel as [|f IH]; intros count bs l r Hwf H; rewrite dec_elems_eq in H;
      destruct (count =? 0) eqn:Hc.
    - inversion H; subst. split; [cbn; lia|reflexivity].
    - discriminate.
    - inversion H; subst. split; [cbn; lia|reflexivity].
    - destruct (dec bs) as [[x r0]|] eqn:Hd; [|discriminate].
      destruct (dec_elems dec f (count - 1) r0) as [[xs r1]|] eqn:Hrec; [|discriminate].
      inversion H; subst; clear H.
      pose proof (C _ _ _ Hwf Hd) as Hbs. subst bs. apply bytes_wf_app_r in Hwf.
      destruct (IH _ _ _ _ Hwf Hrec) as [Hn Hr0]. subst r0. split.
      + cbn [length]. lia.
      + cbn [map concat]. rewrite <- app_assoc. reflexivity.
  Qed.

  Theorem dec_list_canonical bs l r : bytes_wf bs -> dec_list dec bs = Some (l, r) -> enc_list enc l ++ r = bs.
  Proof using C. clear R W E NE wf.
    intros Hwf H. unfold dec_list in H. destruct (vlq_dec bs) as [[n r0]|] eqn:Hv; [|discriminate].
    destruct (vlq_inv _ _ _ Hwf Hv) as (-> & _ & Hr0).
    destruct (dec_elems_canon _ _ _ _ _ Hr0 H) as [-> <-].
    unfold enc_list. rewrite <- app_assoc. reflexivity.
  Qed.

  Lemma dec_elems_wfd fuel : forall count bs l r, bytes_wf bs -> dec_elems dec fuel count bs = Some (l, r) ->
    forallb wf l = true /\ bytes_wf r.
  Proof using W. clear R C E NE.
    induction fuel as [|f IH]; intros count bs l r Hwf H; rewrite dec_elems_eq in H;
      destruct (count =? 0) eqn:Hc.
    - inversion H; subst. split; [reflexivity|exact Hwf].
    - discriminate.
    - inversion H; subst. split; [reflexivity|exact Hwf].
    - destruct (dec bs) as [[x r0]|] eqn:Hd; [|discriminate].
      destruct (dec_elems dec f (count - 1) r0) as [[xs r1]|] eqn:Hrec; [|discriminate].
      inversion H; subst; clear H.
      destruct (W _ _ _ Hwf Hd) as [Hx Hr0]. destruct (IH _ _ _ _ Hr0 Hrec) as [Hxs Hr].
      split; [|exact Hr]. cbn [forallb]. rewrite Hx, Hxs. reflexivity.
  Qed.

  Theorem dec_list_wf bs l r : bytes_wf bs -> dec_list dec bs = Some (l, r) -> forallb wf l = true /\ bytes_wf r.
  Proof using W. clear R C E NE.
    intros Hwf H. unfold dec_list in H. destruct (vlq_dec bs) as [[n r0]|] eqn:Hv; [|discriminate].
    destruct (vlq_inv _ _ _ Hwf Hv) as (_ & _ & Hr0). eapply dec_elems_wfd; eassumption.
  Qed.

  Theorem enc_list_wf l : forallb wf l = true -> bytes_wf (enc_list enc l).
  Proof using E. clear R C W NE.
    intros H. unfold enc_list. apply bytes_wf_app. split; [apply vlq_enc_wf|].
    induction l as [|x l IH]; [constructor|]. cbn [forallb] in H. apply andb_true_iff in H as [Hx Hl].
    cbn [map concat]. apply bytes_wf_app. split; [apply E, Hx|apply IH, Hl].
  Qed.

  (* (C) and (W) together, in the shape used by the composition tactic below *)
  Lemma dec_list_inv bs l r : bytes_wf bs -> dec_list dec bs = Some (l, r) ->
    bs = enc_list enc l ++ r /\ forallb wf l = true /\ bytes_wf r.
  Proof using C W. clear R E NE.
    intros Hwf H. split; [symmetry; apply dec_list_canonical; assumption|]. eapply dec_list_wf; eassumption.
  Qed.
End ListCodecProofs.

(* ================= composition tactics ================= *)

(* [H : match d with Some (a, b) => ... | None => None end = Some _], with [lem] the inversion lemma of the
   decoder applied in [d]:  destruct, discard the None branch, invert, substitute. *)
Ltac step lem H :=
  match type of H with
  | context [match ?d with _ => _ end] =>
      let E := fresh "E" in
      destruct d as [[? ?]|] eqn:E; [|discriminate H];
      eapply lem in E; [|eassumption]; destruct E as (? & ? & ?); subst;
      cbv beta iota in H
  end.

Ltac finish H unf :=
  inversion H; subst; clear H;
  split; [unf; repeat rewrite <- app_assoc; reflexivity|];
  split; [|assumption].

Ltac split_andb :=
  repeat match goal with
         | H : _ && _ = true |- _ => apply andb_true_iff in H; destruct H
         end.

Ltac solve_andb :=
  repeat match goal with H : ?x = true |- context [?x] => rewrite H end; try reflexivity.

Ltac solve_bytes_wf :=
  repeat match goal with |- bytes_wf (_ ++ _) => apply bytes_wf_app; split end;
  try solve [ apply be_enc_wf | apply vlq_enc_wf | eapply len_is_wf; eassumption
            | assumption | apply bytes_wf_cons; split; [lia|constructor] ].

(* derive (C) and (W) from a combined inversion lemma *)
Ltac canon_from lem := intros Hwf H; destruct (lem _ _ _ Hwf H) as (-> & _ & _); reflexivity.
Ltac wfd_from lem := intros Hwf H; destruct (lem _ _ _ Hwf H) as (_ & ? & ?); split; assumption.

Lemma enc_inj_of_rt {A : Type} (wf : A -> bool) (enc : A -> bytes) (dec : bytes -> option (A * bytes)) :
  (forall x r, wf x = true -> dec (enc x ++ r) = Some (x, r)) ->
  forall a b, wf a = true -> wf b = true -> enc a = enc b -> a = b.
Proof.
  intros R a b Ha Hb He. pose proof (R a [] Ha) as H1. pose proof (R b [] Hb) as H2.
  rewrite He in H1. rewrite H1 in H2. inversion H2. reflexivity.
Qed.

(* ================= outref ================= *)
Theorem dec_outref_roundtrip x r : wf_outref x = true -> dec_outref (enc_outref x ++ r) = Some (x, r).
Proof.
  destruct x as [h i]. unfold wf_outref, enc_outref, dec_outref. cbn [or_hash or_index]. intros H. split_andb.
  rewrite <- app_assoc. rewrite take_rt by assumption. cbv beta iota.
  rewrite dec_be4_rt by assumption. reflexivity.
Qed.

Lemma dec_outref_inv bs x r : bytes_wf bs -> dec_outref bs = Some (x, r) ->
  bs = enc_outref x ++ r /\ wf_outref x = true /\ bytes_wf r.
Proof.
  intros Hwf H. unfold dec_outref in H.
  step take_inv_wf H. step dec_be4_inv H. finish H ltac:(unfold enc_outref; cbn [or_hash or_index]).
  unfold wf_outref; cbn [or_hash or_index]. solve_andb.
Qed.

Theorem dec_outref_canonical bs x r : bytes_wf bs -> dec_outref bs = Some (x, r) -> enc_outref x ++ r = bs.
Proof. canon_from dec_outref_inv. Qed.
Theorem dec_outref_wf bs x r : bytes_wf bs -> dec_outref bs = Some (x, r) -> wf_outref x = true /\ bytes_wf r.
Proof. wfd_from dec_outref_inv. Qed.
Theorem enc_outref_wf x : wf_outref x = true -> bytes_wf (enc_outref x).
Proof. destruct x as [h i]. unfold wf_outref, enc_outref. cbn [or_hash or_index]. intros H. split_andb. solve_bytes_wf. Qed.

Lemma enc_outref_length x : wf_outref x = true -> length (enc_outref x) = 36%nat.
Proof.
  destruct x as [h i]. unfold wf_outref, enc_outref. cbn [or_hash or_index]. intros H. split_andb.
  rewrite app_length, be_enc_length. erewrite len_is_length by eassumption. reflexivity.
Qed.

(* ================= sig ================= *)
Theorem dec_sig_roundtrip x r : wf_sig x = true -> dec_sig (enc_sig x ++ r) = Some (x, r).
Proof.
  destruct x as [|h d|s]; unfold wf_sig, enc_sig; intros H.
  - reflexivity.
  - split_andb. repeat rewrite <- app_assoc. cbn [app]. cbv beta iota delta [dec_sig].
    rewrite dec_be4_rt by assumption. cbv beta iota.
    rewrite dec_be1_rt by assumption. cbv beta iota.
    rewrite Nat2N.id. rewrite take_app by reflexivity. reflexivity.
  - cbn [app]. cbv beta iota delta [dec_sig]. rewrite take_rt by assumption. reflexivity.
Qed.

Lemma dec_sig_inv bs x r : bytes_wf bs -> dec_sig bs = Some (x, r) ->
  bs = enc_sig x ++ r /\ wf_sig x = true /\ bytes_wf r.
Proof.
  intros Hwf H. destruct bs as [|t bs]; [discriminate|].
  apply bytes_wf_cons in Hwf as [_ Hwf].
  destruct t as [|[[p|p|]|[p|p|]|]]; cbv beta iota delta [dec_sig] in H; try discriminate H.
  - (* tag 0 *) inversion H; subst. split; [reflexivity|]. split; [reflexivity|assumption].
  - (* tag 2 *) step take_inv_wf H. inversion H; subst; clear H.
    split; [reflexivity|]. split; assumption.
  - (* tag 1 *) step dec_be4_inv H. step dec_be1_inv H.
    match type of H with context [match ?d with _ => _ end] =>
      destruct d as [[d0 r3]|] eqn:E; [|discriminate H] end.
    apply take_inv in E as [Hb Hl]. subst. inversion H; subst; clear H.
    match goal with Hb : bytes_wf (_ ++ _) |- _ => apply bytes_wf_app in Hb as [Hd Hr] end.
    split; [|split; [|exact Hr]].
    + unfold enc_sig. rewrite Hl, N2Nat.id. repeat rewrite <- app_assoc. reflexivity.
    + unfold wf_sig. rewrite Hl, N2Nat.id. solve_andb. apply bytes_wfb_iff, Hd.
Qed.

Theorem dec_sig_canonical bs x r : bytes_wf bs -> dec_sig bs = Some (x, r) -> enc_sig x ++ r = bs.
Proof. canon_from dec_sig_inv. Qed.
Theorem dec_sig_wf bs x r : bytes_wf bs -> dec_sig bs = Some (x, r) -> wf_sig x = true /\ bytes_wf r.
Proof. wfd_from dec_sig_inv. Qed.
Theorem enc_sig_wf x : wf_sig x = true -> bytes_wf (enc_sig x).
Proof.
  destruct x as [|h d|s]; unfold wf_sig, enc_sig; intros H; split_andb; solve_bytes_wf.
  apply bytes_wfb_iff. assumption.
Qed.

(* ================= pk (wf = len_is 64) ================= *)
Theorem dec_pk_roundtrip x r : len_is 64 x = true -> dec_pk (enc_pk x ++ r) = Some (x, r).
Proof. intros H. unfold enc_pk. cbn [app]. cbv beta iota delta [dec_pk]. apply take_rt, H. Qed.

Lemma dec_pk_inv bs x r : bytes_wf bs -> dec_pk bs = Some (x, r) ->
  bs = enc_pk x ++ r /\ len_is 64 x = true /\ bytes_wf r.
Proof.
  intros Hwf H. destruct bs as [|t bs]; [discriminate|].
  apply bytes_wf_cons in Hwf as [_ Hwf].
  destruct t as [|[[p|p|]|[p|p|]|]]; cbv beta iota delta [dec_pk] in H; try discriminate H.
  destruct (take_inv_wf _ _ _ _ Hwf H) as (-> & Hx & Hr). split; [reflexivity|]. split; assumption.
Qed.

Theorem dec_pk_canonical bs x r : bytes_wf bs -> dec_pk bs = Some (x, r) -> enc_pk x ++ r = bs.
Proof. canon_from dec_pk_inv. Qed.
Theorem dec_pk_wf bs x r : bytes_wf bs -> dec_pk bs = Some (x, r) -> len_is 64 x = true /\ bytes_wf r.
Proof. wfd_from dec_pk_inv. Qed.
Theorem enc_pk_wf x : len_is 64 x = true -> bytes_wf (enc_pk x).
Proof. intros H. unfold enc_pk. solve_bytes_wf. Qed.

(* ================= input ================= *)
Theorem dec_input_roundtrip x r : wf_input x = true -> dec_input (enc_input x ++ r) = Some (x, r).
Proof.
  destruct x as [o s]. unfold wf_input, enc_input, dec_input. cbn [in_ref in_sig]. intros H. split_andb.
  rewrite <- app_assoc. rewrite dec_outref_roundtrip by assumption. cbv beta iota.
  rewrite dec_sig_roundtrip by assumption. reflexivity.
Qed.

Lemma dec_input_inv bs x r : bytes_wf bs -> dec_input bs = Some (x, r) ->
  bs = enc_input x ++ r /\ wf_input x = true /\ bytes_wf r.
Proof.
  intros Hwf H. unfold dec_input in H.
  step dec_outref_inv H. step dec_sig_inv H. finish H ltac:(unfold enc_input; cbn [in_ref in_sig]).
  unfold wf_input; cbn [in_ref in_sig]. solve_andb.
Qed.

Theorem dec_input_canonical bs x r : bytes_wf bs -> dec_input bs = Some (x, r) -> enc_input x ++ r = bs.
Proof. canon_from dec_input_inv. Qed.
Theorem dec_input_wf bs x r : bytes_wf bs -> dec_input bs = Some (x, r) -> wf_input x = true /\ bytes_wf r.
Proof. wfd_from dec_input_inv. Qed.
Theorem enc_input_wf x : wf_input x = true -> bytes_wf (enc_input x).
Proof.
  destruct x as [o s]. unfold wf_input, enc_input. cbn [in_ref in_sig]. intros H. split_andb.
  apply bytes_wf_app. split; [apply enc_outref_wf|apply enc_sig_wf]; assumption.
Qed.
Lemma enc_input_nonempty x : wf_input x = true -> (0 < length (enc_input x))%nat.
Proof.
  destruct x as [o s]. unfold wf_input, enc_input. cbn [in_ref in_sig]. intros H. split_andb.
  rewrite app_length, enc_outref_length by assumption. lia.
Qed.

(* ================= output ================= *)
Theorem dec_output_roundtrip x r : wf_output x = true -> dec_output (enc_output x ++ r) = Some (x, r).
Proof.
  destruct x as [v pk]. unfold wf_output, enc_output, dec_output. cbn [out_value out_pk]. intros H. split_andb.
  rewrite <- app_assoc. rewrite dec_be8_rt by assumption. cbv beta iota.
  rewrite dec_pk_roundtrip by assumption. reflexivity.
Qed.

Lemma dec_output_inv bs x r : bytes_wf bs -> dec_output bs = Some (x, r) ->
  bs = enc_output x ++ r /\ wf_output x = true /\ bytes_wf r.
Proof.
  intros Hwf H. unfold dec_output in H.
  step dec_be8_inv H. step dec_pk_inv H. finish H ltac:(unfold enc_output; cbn [out_value out_pk]).
  unfold wf_output; cbn [out_value out_pk]. solve_andb.
Qed.

Theorem dec_output_canonical bs x r : bytes_wf bs -> dec_output bs = Some (x, r) -> enc_output x ++ r = bs.
Proof. canon_from dec_output_inv. Qed.
Theorem dec_output_wf bs x r : bytes_wf bs -> dec_output bs = Some (x, r) -> wf_output x = true /\ bytes_wf r.
Proof. wfd_from dec_output_inv. Qed.
Theorem enc_output_wf x : wf_output x = true -> bytes_wf (enc_output x).
Proof.
  destruct x as [v pk]. unfold wf_output, enc_output. cbn [out_value out_pk]. intros H. split_andb.
  apply bytes_wf_app. split; [apply be_enc_wf|apply enc_pk_wf; assumption].
Qed.
Lemma enc_output_nonempty x : wf_output x = true -> (0 < length (enc_output x))%nat.
Proof. intros _. unfold enc_output. rewrite app_length, be_enc_length. lia. Qed.

(* ================= tx ================= *)
Theorem dec_tx_roundtrip t r : wf_tx t = true -> dec_tx (enc_tx t ++ r) = Some (t, r).
Proof.
  destruct t as [ins outs]. unfold wf_tx, enc_tx. cbn [tx_inputs tx_outputs]. intros H. split_andb.
  repeat rewrite <- app_assoc. cbn [app]. cbv beta iota delta [dec_tx].
  rewrite (dec_list_roundtrip wf_input enc_input dec_input dec_input_roundtrip enc_input_nonempty) by assumption.
  cbv beta iota.
  rewrite (dec_list_roundtrip wf_output enc_output dec_output dec_output_roundtrip enc_output_nonempty)
    by assumption.
  reflexivity.
Qed.

Lemma dec_tx_inv bs t r : bytes_wf bs -> dec_tx bs = Some (t, r) ->
  bs = enc_tx t ++ r /\ wf_tx t = true /\ bytes_wf r.
Proof.
  intros Hwf H. destruct bs as [|tag bs]; [discriminate|].
  apply bytes_wf_cons in Hwf as [_ Hwf].
  destruct tag as [|p]; cbv beta iota delta [dec_tx] in H; [|discriminate H].
  step (dec_list_inv wf_input enc_input dec_input dec_input_canonical dec_input_wf) H.
  step (dec_list_inv wf_output enc_output dec_output dec_output_canonical dec_output_wf) H.
  inversion H; subst; clear H.
  split; [unfold enc_tx; cbn [tx_inputs tx_outputs]; repeat rewrite <- app_assoc; reflexivity|].
  split; [|assumption]. unfold wf_tx; cbn [tx_inputs tx_outputs]. solve_andb.
Qed.

Theorem dec_tx_canonical bs t r : bytes_wf bs -> dec_tx bs = Some (t, r) -> enc_tx t ++ r = bs.
Proof. canon_from dec_tx_inv. Qed.
Theorem dec_tx_wf bs t r : bytes_wf bs -> dec_tx bs = Some (t, r) -> wf_tx t = true /\ bytes_wf r.
Proof. wfd_from dec_tx_inv. Qed.
Theorem enc_tx_wf t : wf_tx t = true -> bytes_wf (enc_tx t).
Proof.
  destruct t as [ins outs]. unfold wf_tx, enc_tx. cbn [tx_inputs tx_outputs]. intros H. split_andb.
  apply bytes_wf_app. split; [apply bytes_wf_cons; split; [lia|constructor]|].
  apply bytes_wf_app. split.
  - apply (enc_list_wf wf_input enc_input enc_input_wf). assumption.
  - apply (enc_list_wf wf_output enc_output enc_output_wf). assumption.
Qed.
Lemma enc_tx_nonempty t : wf_tx t = true -> (0 < length (enc_tx t))%nat.
Proof. intros _. unfold enc_tx. cbn [app length]. lia. Qed.

(* ================= evidence ================= *)
Theorem dec_evidence_roundtrip x r : wf_evidence x = true -> dec_evidence (enc_evidence x ++ r) = Some (x, r).
Proof.
  destruct x as [a b c]. unfold wf_evidence, enc_evidence, dec_evidence.
  cbn [ev_summary_hash ev_chain_sample ev_block_hash]. intros H. split_andb.
  repeat rewrite <- app_assoc.
  rewrite take_rt by assumption. cbv beta iota.
  rewrite take_rt by assumption. cbv beta iota.
  rewrite take_rt by assumption. reflexivity.
Qed.

Lemma dec_evidence_inv bs x r : bytes_wf bs -> dec_evidence bs = Some (x, r) ->
  bs = enc_evidence x ++ r /\ wf_evidence x = true /\ bytes_wf r.
Proof.
  intros Hwf H. unfold dec_evidence in H.
  step take_inv_wf H. step take_inv_wf H. step take_inv_wf H.
  finish H ltac:(unfold enc_evidence; cbn [ev_summary_hash ev_chain_sample ev_block_hash]).
  unfold wf_evidence; cbn [ev_summary_hash ev_chain_sample ev_block_hash]. solve_andb.
Qed.

Theorem dec_evidence_canonical bs x r : bytes_wf bs -> dec_evidence bs = Some (x, r) -> enc_evidence x ++ r = bs.
Proof. canon_from dec_evidence_inv. Qed.
Theorem dec_evidence_wf bs x r : bytes_wf bs -> dec_evidence bs = Some (x, r) -> wf_evidence x = true /\ bytes_wf r.
Proof. wfd_from dec_evidence_inv. Qed.
Theorem enc_evidence_wf x : wf_evidence x = true -> bytes_wf (enc_evidence x).
Proof.
  destruct x as [a b c]. unfold wf_evidence, enc_evidence.
  cbn [ev_summary_hash ev_chain_sample ev_block_hash]. intros H. split_andb. solve_bytes_wf.
Qed.

(* ================= summary ================= *)
Theorem dec_summary_roundtrip x r : wf_summary x = true -> dec_summary (enc_summary x ++ r) = Some (x, r).
Proof.
  destruct x as [h p m t tg n]. unfold wf_summary, enc_summary, dec_summary.
  cbn [s_height s_prev s_merkle s_time s_target s_nonce]. intros H. split_andb.
  repeat rewrite <- app_assoc.
  rewrite vlq_roundtrip. cbv beta iota.
  rewrite take_rt by assumption. cbv beta iota.
  rewrite take_rt by assumption. cbv beta iota.
  rewrite dec_be4_rt by assumption. cbv beta iota.
  rewrite take_rt by assumption. cbv beta iota.
  rewrite dec_be4_rt by assumption. reflexivity.
Qed.

Lemma dec_summary_inv bs x r : bytes_wf bs -> dec_summary bs = Some (x, r) ->
  bs = enc_summary x ++ r /\ wf_summary x = true /\ bytes_wf r.
Proof.
  intros Hwf H. unfold dec_summary in H.
  step vlq_inv H. step take_inv_wf H. step take_inv_wf H. step dec_be4_inv H.
  step take_inv_wf H. step dec_be4_inv H.
  finish H ltac:(unfold enc_summary; cbn [s_height s_prev s_merkle s_time s_target s_nonce]).
  unfold wf_summary; cbn [s_height s_prev s_merkle s_time s_target s_nonce]. solve_andb.
Qed.

Theorem dec_summary_canonical bs x r : bytes_wf bs -> dec_summary bs = Some (x, r) -> enc_summary x ++ r = bs.
Proof. canon_from dec_summary_inv. Qed.
Theorem dec_summary_wf bs x r : bytes_wf bs -> dec_summary bs = Some (x, r) -> wf_summary x = true /\ bytes_wf r.
Proof. wfd_from dec_summary_inv. Qed.
Theorem enc_summary_wf x : wf_summary x = true -> bytes_wf (enc_summary x).
Proof.
  destruct x as [h p m t tg n]. unfold wf_summary, enc_summary.
  cbn [s_height s_prev s_merkle s_time s_target s_nonce]. intros H. split_andb. solve_bytes_wf.
Qed.

(* ================= header ================= *)
Theorem dec_header_roundtrip x r : wf_header x = true -> dec_header (enc_header x ++ r) = Some (x, r).
Proof.
  destruct x as [s e]. unfold wf_header, enc_header. cbn [h_summary h_evidence]. intros H. split_andb.
  repeat rewrite <- app_assoc. cbn [app]. cbv beta iota delta [dec_header].
  rewrite dec_summary_roundtrip by assumption. cbv beta iota.
  rewrite dec_evidence_roundtrip by assumption. reflexivity.
Qed.

Lemma dec_header_inv bs x r : bytes_wf bs -> dec_header bs = Some (x, r) ->
  bs = enc_header x ++ r /\ wf_header x = true /\ bytes_wf r.
Proof.
  intros Hwf H. destruct bs as [|tag bs]; [discriminate|].
  apply bytes_wf_cons in Hwf as [_ Hwf].
  destruct tag as [|p]; cbv beta iota delta [dec_header] in H; [|discriminate H].
  step dec_summary_inv H. step dec_evidence_inv H.
  inversion H; subst; clear H.
  split; [unfold enc_header; cbn [h_summary h_evidence]; repeat rewrite <- app_assoc; reflexivity|].
  split; [|assumption]. unfold wf_header; cbn [h_summary h_evidence]. solve_andb.
Qed.

Theorem dec_header_canonical bs x r : bytes_wf bs -> dec_header bs = Some (x, r) -> enc_header x ++ r = bs.
Proof. canon_from dec_header_inv. Qed.
Theorem dec_header_wf bs x r : bytes_wf bs -> dec_header bs = Some (x, r) -> wf_header x = true /\ bytes_wf r.
Proof. wfd_from dec_header_inv. Qed.
Theorem enc_header_wf x : wf_header x = true -> bytes_wf (enc_header x).
Proof.
  destruct x as [s e]. unfold wf_header, enc_header. cbn [h_summary h_evidence]. intros H. split_andb.
  apply bytes_wf_app. split; [apply bytes_wf_cons; split; [lia|constructor]|].
  apply bytes_wf_app. split; [apply enc_summary_wf|apply enc_evidence_wf]; assumption.
Qed.

(* ================= block ================= *)
Theorem dec_block_roundtrip x r : wf_block x = true -> dec_block (enc_block x ++ r) = Some (x, r).
Proof.
  destruct x as [h ts]. unfold wf_block, enc_block, dec_block. cbn [b_header b_txs]. intros H. split_andb.
  rewrite <- app_assoc. rewrite dec_header_roundtrip by assumption. cbv beta iota.
  rewrite (dec_list_roundtrip wf_tx enc_tx dec_tx dec_tx_roundtrip enc_tx_nonempty) by assumption.
  reflexivity.
Qed.

Lemma dec_block_inv bs x r : bytes_wf bs -> dec_block bs = Some (x, r) ->
  bs = enc_block x ++ r /\ wf_block x = true /\ bytes_wf r.
Proof.
  intros Hwf H. unfold dec_block in H.
  step dec_header_inv H. step (dec_list_inv wf_tx enc_tx dec_tx dec_tx_canonical dec_tx_wf) H.
  finish H ltac:(unfold enc_block; cbn [b_header b_txs]).
  unfold wf_block; cbn [b_header b_txs]. solve_andb.
Qed.

Theorem dec_block_canonical bs x r : bytes_wf bs -> dec_block bs = Some (x, r) -> enc_block x ++ r = bs.
Proof. canon_from dec_block_inv. Qed.
Theorem dec_block_wf bs x r : bytes_wf bs -> dec_block bs = Some (x, r) -> wf_block x = true /\ bytes_wf r.
Proof. wfd_from dec_block_inv. Qed.
Theorem enc_block_wf x : wf_block x = true -> bytes_wf (enc_block x).
Proof.
  destruct x as [h ts]. unfold wf_block, enc_block. cbn [b_header b_txs]. intros H. split_andb.
  apply bytes_wf_app. split; [apply enc_header_wf; assumption|].
  apply (enc_list_wf wf_tx enc_tx enc_tx_wf). assumption.
Qed.

(* ================= consequences ================= *)

(* the id cached at decode time (hash of the consumed bytes) is the hash of the canonical encoding *)
Theorem dec_tx_id_canonical sha bs t id r : bytes_wf bs -> dec_tx_id sha bs = Some (t, id, r) -> id = tx_id sha t.
Proof.
  intros Hwf H. unfold dec_tx_id in H. destruct (dec_tx bs) as [[t0 r0]|] eqn:E; [|discriminate].
  inversion H; subst; clear H. destruct (dec_tx_inv _ _ _ Hwf E) as (-> & _ & _).
  rewrite consumed_app. reflexivity.
Qed.

Theorem dec_block_id_canonical sha bs b id r : bytes_wf bs -> dec_block_id sha bs = Some (b, id, r) ->
  id = block_id sha b.
Proof.
  intros Hwf H. unfold dec_block_id in H. destruct (dec_header bs) as [[h r0]|] eqn:E; [|discriminate].
  destruct (dec_list dec_tx r0) as [[ts r1]|] eqn:E1; [|discriminate].
  inversion H; subst; clear H. destruct (dec_header_inv _ _ _ Hwf E) as (-> & _ & _).
  rewrite consumed_app. reflexivity.
Qed.

(* dec_block_id decodes exactly what dec_block decodes *)
Lemma dec_block_id_dec_block sha bs b id r : dec_block_id sha bs = Some (b, id, r) -> dec_block bs = Some (b, r).
Proof.
  unfold dec_block_id, dec_block. destruct (dec_header bs) as [[h r0]|]; [|discriminate].
  destruct (dec_list dec_tx r0) as [[ts r1]|]; [|discriminate]. intros H; inversion H; reflexivity.
Qed.

Theorem enc_tx_inj a b : wf_tx a = true -> wf_tx b = true -> enc_tx a = enc_tx b -> a = b.
Proof. apply (enc_inj_of_rt wf_tx enc_tx dec_tx dec_tx_roundtrip). Qed.
Theorem enc_header_inj a b : wf_header a = true -> wf_header b = true -> enc_header a = enc_header b -> a = b.
Proof. apply (enc_inj_of_rt wf_header enc_header dec_header dec_header_roundtrip). Qed.
Theorem enc_block_inj a b : wf_block a = true -> wf_block b = true -> enc_block a = enc_block b -> a = b.
Proof. apply (enc_inj_of_rt wf_block enc_block dec_block dec_block_roundtrip). Qed.
Theorem enc_summary_inj a b : wf_summary a = true -> wf_summary b = true -> enc_summary a = enc_summary b -> a = b.
Proof. apply (enc_inj_of_rt wf_summary enc_summary dec_summary dec_summary_roundtrip). Qed.
Theorem enc_outref_inj a b : wf_outref a = true -> wf_outref b = true -> enc_outref a = enc_outref b -> a = b.
Proof. apply (enc_inj_of_rt wf_outref enc_outref dec_outref dec_outref_roundtrip). Qed.
Theorem enc_input_inj a b : wf_input a = true -> wf_input b = true -> enc_input a = enc_input b -> a = b.
Proof. apply (enc_inj_of_rt wf_input enc_input dec_input dec_input_roundtrip). Qed.
Theorem enc_output_inj a b : wf_output a = true -> wf_output b = true -> enc_output a = enc_output b -> a = b.
Proof. apply (enc_inj_of_rt wf_output enc_output dec_output dec_output_roundtrip). Qed.
Theorem enc_evidence_inj a b : wf_evidence a = true -> wf_evidence b = true -> enc_evidence a = enc_evidence b -> a = b.
Proof. apply (enc_inj_of_rt wf_evidence enc_evidence dec_evidence dec_evidence_roundtrip). Qed.

(* signable *)
Lemma signable_wf t : wf_tx t = true -> wf_tx (signable t) = true.
Proof.
  unfold wf_tx, signable. cbn [tx_inputs tx_outputs]. intros H. apply andb_true_iff in H as [Hi Ho].
  apply andb_true_iff. split; [|exact Ho].
  rewrite forallb_forall in *. intros x Hx. apply in_map_iff in Hx as (y & <- & Hy).
  specialize (Hi y Hy). unfold wf_input in *. unfold signable_input. cbn [in_ref in_sig wf_sig].
  apply andb_true_iff in Hi as [Hr _]. rewrite Hr. reflexivity.
Qed.

Lemma map_in_ref_signable l : map in_ref (map signable_input l) = map in_ref l.
Proof. rewrite map_map. apply map_ext. intros i. reflexivity. Qed.

Theorem signable_determines a b : wf_tx a = true -> wf_tx b = true ->
  enc_tx (signable a) = enc_tx (signable b) ->
  map in_ref (tx_inputs a) = map in_ref (tx_inputs b) /\ tx_outputs a = tx_outputs b.
Proof.
  intros Ha Hb He. apply enc_tx_inj in He; [|apply signable_wf; assumption|apply signable_wf; assumption].
  unfold signable in He. injection He as Hi Ho. split; [|exact Ho].
  rewrite <- (map_in_ref_signable (tx_inputs a)), <- (map_in_ref_signable (tx_inputs b)), Hi. reflexivity.
Qed.

