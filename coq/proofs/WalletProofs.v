(* Proofs about model/WalletModel.v : spend builder (A), key management (B), file replacement (C).
   Stdlib style only. *)
From Coq Require Import NArith List Bool Arith Lia.
From SkV Require Import WalletModel.
Import ListNotations.
Open Scope N_scope.

(* ================================================================== *)
(* PART A : spend builder                                              *)
(* ================================================================== *)

Definition all_refs (h : holdings) : list (N * N) := concat (map (fun kv => snd kv) h).
Definition avail (used : list N) (h : holdings) : list (N * N) :=
  filter (fun rv => negb (existsb (N.eqb (fst rv)) used)) (all_refs h).
Definition total (l : list (N * N)) : N := fold_right (fun rv s => snd rv + s) 0 l.

(* value of a reference in the holdings (first occurrence; unique when references are NoDup) *)
Definition ref_value (h : holdings) (r : N) : N :=
  match find (fun rv => fst rv =? r) (all_refs h) with Some rv => snd rv | None => 0 end.
Definition sum_values (h : holdings) (ins : list N) : N := fold_right (fun r s => ref_value h r + s) 0 ins.

(* ---------- generic list helpers ---------- *)
Lemma total_app l1 l2 : total (l1 ++ l2) = total l1 + total l2.
Proof. induction l1 as [|a l1 IH]; cbn [total fold_right app] in *; [reflexivity|]. fold (total (l1 ++ l2)) in *. fold (total l1). lia. Qed.

Lemma total_cons a l : total (a :: l) = snd a + total l.
Proof. reflexivity. Qed.

Lemma NoDup_app_l {A} (l1 l2 : list A) : NoDup (l1 ++ l2) -> NoDup l1.
Proof.
  induction l1 as [|a l1 IH]; intros H; [constructor|].
  cbn in H. inversion H as [|x l Hn Hd]; subst. constructor; [|auto].
  intros Hin; apply Hn; apply in_or_app; auto.
Qed.

Lemma NoDup_snoc {A} (l : list A) (k : A) : NoDup l -> ~ In k l -> NoDup (l ++ [k]).
Proof.
  induction l as [|a l IH]; intros Hd Hn; cbn.
  - constructor; [intros []|constructor].
  - inversion Hd as [|x l' Ha Hd']; subst. constructor.
    + intros Hin. apply in_app_or in Hin. destruct Hin as [Hin|[Hin|[]]]; [auto|].
      apply Hn; left; auto.
    + apply IH; [auto|]. intros Hin; apply Hn; right; auto.
Qed.

Lemma NoDup_snoc_inv {A} (l : list A) (k : A) : NoDup (l ++ [k]) -> NoDup l /\ ~ In k l.
Proof. intros H. apply NoDup_remove in H. rewrite app_nil_r in H. exact H. Qed.

Lemma NoDup_map_fst_filter {A B} (f : A * B -> bool) (l : list (A * B)) :
  NoDup (map fst l) -> NoDup (map fst (filter f l)).
Proof.
  induction l as [|a l IH]; intros H; cbn; [constructor|].
  cbn in H. inversion H as [|x l' Hn Hd]; subst.
  destruct (f a); [|auto]. cbn. constructor; [|auto].
  intros Hin. apply Hn. apply in_map_iff in Hin. destruct Hin as [x [Hx Hin]].
  apply filter_In in Hin. apply in_map_iff. exists x. tauto.
Qed.

Lemma map_removelast {A B} (f : A -> B) (l : list A) : map f (removelast l) = removelast (map f l).
Proof.
  induction l as [|a l IH]; [reflexivity|].
  destruct l as [|b l]; [reflexivity|].
  change (removelast (a :: b :: l)) with (a :: removelast (b :: l)).
  change (map f (a :: b :: l)) with (f a :: f b :: map f l).
  change (removelast (f a :: f b :: map f l)) with (f a :: removelast (f b :: map f l)).
  cbn [map]. f_equal. exact IH.
Qed.

Lemma removelast_incl {A} (l : list A) : incl (removelast l) l.
Proof.
  destruct l as [|a l]; [intros x []|].
  intros x Hx. rewrite (app_removelast_last a (l := a :: l)) by discriminate.
  apply in_or_app; left; exact Hx.
Qed.

(* ---------- specification of the greedy scan on the flat list of available references ---------- *)
Fixpoint pick (need got : N) (l : list (N * N)) : option (list (N * N)) :=
  match l with
  | [] => None
  | rv :: rest =>
      if need <=? got + snd rv then Some [rv]
      else match pick need (got + snd rv) rest with Some s => Some (rv :: s) | None => None end
  end.

Lemma pick_app need l1 : forall got l2,
  pick need got (l1 ++ l2) =
  match pick need got l1 with
  | Some s => Some s
  | None => match pick need (got + total l1) l2 with Some s => Some (l1 ++ s) | None => None end
  end.
Proof.
  induction l1 as [|a l1 IH]; intros got l2.
  - cbn [app pick total fold_right]. rewrite N.add_0_r. destruct (pick need got l2); reflexivity.
  - cbn [app pick]. destruct (need <=? got + snd a); [reflexivity|].
    rewrite IH. destruct (pick need (got + snd a) l1); [reflexivity|].
    rewrite total_cons. rewrite N.add_assoc.
    destruct (pick need (got + snd a + total l1) l2); reflexivity.
Qed.

Lemma pick_some need l : forall got s,
  pick need got l = Some s ->
  exists rest, l = s ++ rest /\ s <> [] /\ need <= got + total s /\
               (got < need \/ removelast s <> [] -> got + total (removelast s) < need).
Proof.
  induction l as [|a l IH]; intros got s H; [discriminate|].
  cbn [pick] in H. destruct (need <=? got + snd a) eqn:E.
  - inversion H; subst s. exists l. split; [reflexivity|]. split; [discriminate|].
    rewrite total_cons. cbn [total fold_right removelast].
    split; [apply N.leb_le in E; lia|]. intros [Hl|Hn]; [lia|congruence].
  - destruct (pick need (got + snd a) l) as [s'|] eqn:Ep; [|discriminate].
    inversion H; subst s. apply N.leb_gt in E.
    destruct (IH _ _ Ep) as [rest [Hl [Hne [Hge Hmin]]]].
    exists rest. split; [cbn; congruence|]. split; [discriminate|].
    rewrite total_cons. split; [lia|]. intros _.
    destruct s' as [|b s']; [congruence|].
    change (removelast (a :: b :: s')) with (a :: removelast (b :: s')).
    rewrite total_cons. specialize (Hmin (or_introl E)). lia.
Qed.

Lemma pick_none need l : forall got, pick need got l = None <-> l = [] \/ got + total l < need.
Proof.
  induction l as [|a l IH]; intros got.
  - cbn. tauto.
  - cbn [pick]. rewrite total_cons. destruct (need <=? got + snd a) eqn:E.
    + apply N.leb_le in E. split; [discriminate|]. intros [H|H]; [discriminate|lia].
    + apply N.leb_gt in E. destruct (pick need (got + snd a) l) eqn:Ep.
      * split; [discriminate|]. intros [H|H]; [discriminate|].
        assert (Hc : Some l0 = None); [|discriminate].
        rewrite <- Ep. apply IH. right. lia.
      * split; [|reflexivity]. intros _. right. apply IH in Ep. destruct Ep as [Ep|Ep].
        -- subst l. cbn. lia.
        -- lia.
Qed.

(* ---------- the model functions in terms of pick ---------- *)
Definition nu (used : list N) : N * N -> bool := fun rv => negb (existsb (N.eqb (fst rv)) used).

Lemma collect_refs_spec used need : forall refs acc got,
  collect_refs used refs need acc got =
  match pick need got (filter (nu used) refs) with
  | Some s => (rev (map fst s) ++ acc, got + total s, true)
  | None => (rev (map fst (filter (nu used) refs)) ++ acc, got + total (filter (nu used) refs), false)
  end.
Proof.
  induction refs as [|[r v] rest IH]; intros acc got.
  - cbn. rewrite N.add_0_r. reflexivity.
  - cbn [collect_refs filter].
    assert (Hnu : nu used (r, v) = negb (existsb (N.eqb r) used)) by reflexivity. rewrite Hnu. clear Hnu.
    destruct (existsb (N.eqb r) used) eqn:E; cbn [negb].
    + apply IH.
    + cbn [pick snd]. destruct (need <=? got + v).
      * cbn. rewrite N.add_0_r. reflexivity.
      * rewrite IH. destruct (pick need (got + v) (filter (nu used) rest)).
        -- cbn [map fst rev]. rewrite <- app_assoc. cbn [app]. rewrite total_cons. cbn [snd].
           rewrite N.add_assoc. reflexivity.
        -- cbn [map fst rev]. rewrite <- app_assoc. cbn [app]. rewrite total_cons. cbn [snd].
           rewrite N.add_assoc. reflexivity.
Qed.

Lemma avail_cons used k refs rest : avail used ((k, refs) :: rest) = filter (nu used) refs ++ avail used rest.
Proof. unfold avail, all_refs. cbn [map concat snd]. apply filter_app. Qed.

Lemma collect_keys_spec used need : forall h acc got,
  collect_keys used h need acc got =
  match pick need got (avail used h) with
  | Some s => Some (rev acc ++ map fst s, got + total s)
  | None => None
  end.
Proof.
  induction h as [|[k refs] rest IH]; intros acc got.
  - reflexivity.
  - cbn [collect_keys]. rewrite collect_refs_spec. rewrite avail_cons. rewrite pick_app.
    destruct (pick need got (filter (nu used) refs)) as [s|].
    + rewrite rev_app_distr, rev_involutive. reflexivity.
    + rewrite IH. destruct (pick need (got + total (filter (nu used) refs)) (avail used rest)) as [s|]; [|reflexivity].
      rewrite rev_app_distr, rev_involutive, map_app, total_app, <- app_assoc, N.add_assoc. reflexivity.
Qed.

Lemma create_spend_spec used h value fee :
  create_spend used h value fee =
  match pick (value + fee) 0 (avail used h) with
  | Some s => Some (mkSpend (map fst s) value
                      (if total s =? value + fee then None else Some (total s - (value + fee))),
                    used ++ map fst s)
  | None => None
  end.
Proof.
  unfold create_spend. rewrite collect_keys_spec.
  destruct (pick (value + fee) 0 (avail used h)); [|reflexivity].
  cbn [rev app]. rewrite N.add_0_l. reflexivity.
Qed.

(* ---------- value lookup ---------- *)
Lemma find_unique (L : list (N * N)) r v :
  NoDup (map fst L) -> In (r, v) L -> find (fun rv => fst rv =? r) L = Some (r, v).
Proof.
  induction L as [|[r' v'] L IH]; intros Hd Hin; [destruct Hin|].
  cbn in Hd. inversion Hd as [|x l Hn Hd']; subst.
  cbn [find fst]. destruct Hin as [Heq|Hin].
  - inversion Heq; subst. rewrite N.eqb_refl. reflexivity.
  - destruct (r' =? r) eqn:E.
    + apply N.eqb_eq in E; subst r'. exfalso. apply Hn. apply in_map_iff. exists (r, v). auto.
    + auto.
Qed.

Lemma sum_values_total h s :
  NoDup (map fst (all_refs h)) -> incl s (all_refs h) -> sum_values h (map fst s) = total s.
Proof.
  intros Hd. induction s as [|[r v] s IH]; intros Hin; [reflexivity|].
  cbn [map fst sum_values fold_right]. fold (sum_values h (map fst s)).
  rewrite total_cons. cbn [snd]. rewrite IH by (intros x Hx; apply Hin; right; exact Hx).
  unfold ref_value. rewrite (find_unique _ r v Hd) by (apply Hin; left; reflexivity). reflexivity.
Qed.

Lemma avail_incl used h : incl (avail used h) (all_refs h).
Proof. intros x Hx. apply filter_In in Hx. tauto. Qed.

Lemma avail_not_used used h r v : In (r, v) (avail used h) -> ~ In r used.
Proof.
  intros Hx Hu. apply filter_In in Hx. destruct Hx as [_ Hx]. cbn [fst] in Hx.
  apply negb_true_iff in Hx.
  assert (Ht : existsb (N.eqb r) used = true); [|congruence].
  apply existsb_exists. exists r. split; [exact Hu|apply N.eqb_refl].
Qed.

(* ---------- A1 ---------- *)
Theorem spend_success used h value fee sp used' :
  NoDup (map fst (all_refs h)) ->
  create_spend used h value fee = Some (sp, used') ->
  sp_pay sp = value /\
  NoDup (sp_inputs sp) /\
  (forall r, In r (sp_inputs sp) -> In r (map fst (all_refs h)) /\ ~ In r used) /\
  let got := sum_values h (sp_inputs sp) in
  value + fee <= got /\
  (sp_change sp = None <-> got = value + fee) /\
  (forall c, sp_change sp = Some c -> c = got - (value + fee) /\ 0 < c) /\
  used' = used ++ sp_inputs sp /\
  (exists rest, map fst (avail used h) = sp_inputs sp ++ rest) /\
  sp_inputs sp <> [].
Proof.
  intros Hd H. rewrite create_spend_spec in H.
  destruct (pick (value + fee) 0 (avail used h)) as [s|] eqn:Ep; [|discriminate].
  inversion H; subst sp used'; clear H. cbn [sp_pay sp_inputs sp_change].
  destruct (pick_some _ _ _ _ Ep) as [rest [Hl [Hne [Hge _]]]].
  assert (Hincl : incl s (avail used h)) by (rewrite Hl; intros x Hx; apply in_or_app; auto).
  assert (Hincl' : incl s (all_refs h)) by (intros x Hx; apply avail_incl with used; auto).
  rewrite (sum_values_total h s Hd Hincl'). rewrite N.add_0_l in Hge.
  split; [reflexivity|]. split.
  { apply NoDup_app_l with (map fst rest). rewrite <- map_app, <- Hl.
    apply NoDup_map_fst_filter. exact Hd. }
  split.
  { intros r Hr. apply in_map_iff in Hr. destruct Hr as [[r' v] [Hf Hr]]. cbn in Hf; subst r'. split.
    - apply in_map_iff. exists (r, v). split; [reflexivity|auto].
    - apply avail_not_used with h v. auto. }
  cbv zeta. split; [exact Hge|]. split.
  { destruct (total s =? value + fee) eqn:E.
    - apply N.eqb_eq in E. tauto.
    - apply N.eqb_neq in E. split; [discriminate|tauto]. }
  split.
  { intros c Hc. destruct (total s =? value + fee) eqn:E; [discriminate|].
    apply N.eqb_neq in E. inversion Hc; subst c. split; [reflexivity|lia]. }
  split; [reflexivity|]. split.
  { exists (map fst rest). rewrite Hl, map_app. reflexivity. }
  destruct s; [congruence|discriminate].
Qed.

(* minimality of the greedy prefix.
   ORIGINAL (unconditional) CLAUSE: "dropping the last selected input leaves strictly less than value + fee".
   It is false of the model when value + fee = 0: the scan then still selects the first available reference,
   and dropping it leaves 0, which is not < 0 (see spend_minimal_refuted).  The precise true statement: *)
Theorem spend_minimal_partial used h value fee sp used' :
  NoDup (map fst (all_refs h)) ->
  create_spend used h value fee = Some (sp, used') ->
  0 < value + fee \/ removelast (sp_inputs sp) <> [] ->
  sum_values h (removelast (sp_inputs sp)) < value + fee.
Proof.
  intros Hd H Hc. rewrite create_spend_spec in H.
  destruct (pick (value + fee) 0 (avail used h)) as [s|] eqn:Ep; [|discriminate].
  inversion H; subst sp used'; clear H. cbn [sp_inputs] in *.
  destruct (pick_some _ _ _ _ Ep) as [rest [Hl [Hne [_ Hmin]]]].
  rewrite <- map_removelast in *.
  rewrite sum_values_total; [|exact Hd|].
  - rewrite N.add_0_l in Hmin. apply Hmin. destruct Hc as [Hc|Hc]; [left; exact Hc|right].
    intros E; apply Hc; rewrite E; reflexivity.
  - intros x Hx. apply avail_incl with used. rewrite Hl. apply in_or_app. left.
    apply removelast_incl. exact Hx.
Qed.

Theorem spend_minimal_refuted : exists used h value fee sp used',
  NoDup (map fst (all_refs h)) /\ create_spend used h value fee = Some (sp, used') /\
  ~ sum_values h (removelast (sp_inputs sp)) < value + fee.
Proof.
  exists [], [(1, [(1, 5)])], 0, 0, (mkSpend [1] 0 (Some 5)), [1].
  split; [repeat constructor; cbn; tauto|]. split; [vm_compute; reflexivity|]. vm_compute. discriminate.
Qed.

(* ---------- A2 ---------- *)
(* exact characterisation of failure *)
Theorem spend_failure_frame_exact used h value fee :
  create_spend used h value fee = None <-> avail used h = [] \/ total (avail used h) < value + fee.
Proof.
  rewrite create_spend_spec.
  destruct (pick (value + fee) 0 (avail used h)) as [s|] eqn:Ep.
  - split; [discriminate|]. intros Hc. apply (pick_none _ _ 0) in Hc. congruence.
  - split; [|reflexivity]. intros _. apply pick_none in Ep. exact Ep.
Qed.

(* ORIGINAL: create_spend used h value fee = None <-> total (avail used h) < value + fee.
   False of the model when value + fee = 0 and nothing is available (the scan of an empty list reports
   "insufficient" although 0 <= 0): see spend_failure_frame_refuted.  True for every positive request: *)
Theorem spend_failure_frame_partial used h value fee :
  0 < value + fee ->
  (create_spend used h value fee = None <-> total (avail used h) < value + fee).
Proof.
  intros Hp. rewrite spend_failure_frame_exact. split; [|tauto].
  intros [H|H]; [rewrite H; exact Hp|exact H].
Qed.

Theorem spend_failure_frame_refuted : exists used h value fee,
  create_spend used h value fee = None /\ ~ total (avail used h) < value + fee.
Proof. exists [], [], 0, 0. split; [reflexivity|]. vm_compute. discriminate. Qed.

(* the "if" direction holds unconditionally *)
Theorem spend_failure_frame_if used h value fee :
  total (avail used h) < value + fee -> create_spend used h value fee = None.
Proof. intros H. apply spend_failure_frame_exact. right. exact H. Qed.

(* A failed attempt returns nothing, so the caller's used-set is the one it passed in; the next request is judged
   on the same available references.  (Needs 0 < v2 + f2 for the reason above.) *)
Corollary affordable_after_failed_attempt_partial used h v1 f1 v2 f2 :
  create_spend used h v1 f1 = None -> 0 < v2 + f2 -> total (avail used h) >= v2 + f2 ->
  exists r, create_spend used h v2 f2 = Some r.
Proof.
  intros _ Hp Hge. destruct (create_spend used h v2 f2) as [r|] eqn:E; [exists r; reflexivity|].
  apply spend_failure_frame_partial in E; [lia|exact Hp].
Qed.

Theorem affordable_after_failed_attempt_refuted : exists used h v1 f1 v2 f2,
  create_spend used h v1 f1 = None /\ total (avail used h) >= v2 + f2 /\ create_spend used h v2 f2 = None.
Proof. exists [], [], 1, 0, 0, 0. split; [reflexivity|]. split; [vm_compute; discriminate|reflexivity]. Qed.

(* ---------- A3 ---------- *)
Fixpoint run_spends (used : list N) (h : holdings) (reqs : list (N * N)) : list (option spend) :=
  match reqs with
  | [] => []
  | (v, f) :: rest =>
      match create_spend used h v f with
      | Some (sp, used') => Some sp :: run_spends used' h rest
      | None => None :: run_spends used h rest
      end
  end.

Lemma create_spend_fresh used h v f sp used' :
  create_spend used h v f = Some (sp, used') ->
  used' = used ++ sp_inputs sp /\ forall r, In r (sp_inputs sp) -> ~ In r used.
Proof.
  intros H. rewrite create_spend_spec in H.
  destruct (pick (v + f) 0 (avail used h)) as [s|] eqn:Ep; [|discriminate].
  inversion H; subst sp used'; clear H. cbn [sp_inputs]. split; [reflexivity|].
  destruct (pick_some _ _ _ _ Ep) as [rest [Hl _]].
  intros r Hr. apply in_map_iff in Hr. destruct Hr as [[r' v'] [Hf Hr]]. cbn in Hf; subst r'.
  apply avail_not_used with h v'. rewrite Hl. apply in_or_app. auto.
Qed.

Lemma run_spends_disjoint_used h reqs : forall used i sp r,
  nth_error (run_spends used h reqs) i = Some (Some sp) -> In r (sp_inputs sp) -> ~ In r used.
Proof.
  induction reqs as [|[v f] reqs IH]; intros used i sp r Hn Hr.
  - destruct i; discriminate.
  - cbn [run_spends] in Hn. destruct (create_spend used h v f) as [[sp0 used0]|] eqn:E.
    + destruct (create_spend_fresh _ _ _ _ _ _ E) as [Hu Hf]. destruct i as [|i]; cbn in Hn.
      * inversion Hn; subst sp0. auto.
      * intros Hin. apply (IH _ _ _ _ Hn Hr). subst used0. apply in_or_app. auto.
    + destruct i as [|i]; cbn in Hn; [discriminate|]. eapply IH; eauto.
Qed.

Theorem spend_sequences used h reqs :
  (forall i sp r, nth_error (run_spends used h reqs) i = Some (Some sp) -> In r (sp_inputs sp) -> ~ In r used) /\
  (forall i j sp1 sp2 r, i <> j ->
     nth_error (run_spends used h reqs) i = Some (Some sp1) ->
     nth_error (run_spends used h reqs) j = Some (Some sp2) ->
     In r (sp_inputs sp1) -> ~ In r (sp_inputs sp2)).
Proof.
  split; [apply run_spends_disjoint_used|].
  assert (Hlt : forall reqs used i j sp1 sp2 r, (i < j)%nat ->
     nth_error (run_spends used h reqs) i = Some (Some sp1) ->
     nth_error (run_spends used h reqs) j = Some (Some sp2) ->
     In r (sp_inputs sp1) -> ~ In r (sp_inputs sp2)).
  { clear. induction reqs as [|[v f] reqs IH]; intros used i j sp1 sp2 r Hij H1 H2 Hr1 Hr2.
    - destruct i; discriminate.
    - cbn [run_spends] in H1, H2. destruct j as [|j]; [lia|].
      destruct (create_spend used h v f) as [[sp0 used0]|] eqn:E.
      + destruct (create_spend_fresh _ _ _ _ _ _ E) as [Hu Hf]. destruct i as [|i]; cbn in H1, H2.
        * inversion H1; subst sp0.
          apply (run_spends_disjoint_used _ _ _ _ _ _ H2 Hr2). subst used0. apply in_or_app. auto.
        * apply (IH used0 i j sp1 sp2 r); auto. lia.
      + destruct i as [|i]; cbn in H1, H2; [discriminate|]. apply (IH used i j sp1 sp2 r); auto. lia. }
  intros i j sp1 sp2 r Hij H1 H2 Hr1 Hr2.
  destruct (Nat.lt_total i j) as [Hc|[Hc|Hc]]; [|contradiction|].
  - exact (Hlt reqs used i j sp1 sp2 r Hc H1 H2 Hr1 Hr2).
  - exact (Hlt reqs used j i sp2 sp1 r Hc H2 H1 Hr2 Hr1).
Qed.

(* ---------- A4 : the shipped defect ---------- *)
Theorem prefix_poisons_refuted : exists used h v1 f1 v2 f2,
  fst (create_spend_prefix used h v1 f1) = None /\
  total (avail used h) >= v2 + f2 /\
  let used' := snd (create_spend_prefix used h v1 f1) in
  create_spend used' h v2 f2 = None.
Proof.
  exists [], [(1, [(11, 10); (12, 10); (13, 10)])], 100, 0, 5, 0.
  split; [vm_compute; reflexivity|]. split; [vm_compute; discriminate|]. vm_compute. reflexivity.
Qed.

(* with the fixed builder the same second request succeeds *)
Theorem fixed_builder_not_poisoned : exists r,
  create_spend [] [(1, [(11, 10); (12, 10); (13, 10)])] 100 0 = None /\
  create_spend [] [(1, [(11, 10); (12, 10); (13, 10)])] 5 0 = Some r.
Proof. eexists. split; vm_compute; reflexivity. Qed.

(* ================================================================== *)
(* PART B : keys                                                       *)
(* ================================================================== *)

Definition WInv (w : wallet) : Prop :=
  NoDup (w_unused w) /\ NoDup (map fst (w_annot w)) /\
  (forall k, In k (w_unused w) -> In k (w_keys w)) /\
  (forall k, In k (map fst (w_annot w)) -> In k (w_keys w)) /\
  (forall k, In k (w_unused w) -> ~ In k (map fst (w_annot w))).

Definition drop_key (k : N) (l : list (N * N)) : list (N * N) := filter (fun e => negb (fst e =? k)) l.

Lemma in_drop_key k l x : In x (map fst (drop_key k l)) <-> In x (map fst l) /\ x <> k.
Proof.
  unfold drop_key. split.
  - intros H. apply in_map_iff in H. destruct H as [e [He Hin]]. apply filter_In in Hin.
    destruct Hin as [Hin Hb]. apply negb_true_iff, N.eqb_neq in Hb. subst x. split; [|exact Hb].
    apply in_map. exact Hin.
  - intros [H Hne]. apply in_map_iff in H. destruct H as [e [He Hin]]. apply in_map_iff. exists e.
    split; [exact He|]. apply filter_In. split; [exact Hin|]. apply negb_true_iff, N.eqb_neq. congruence.
Qed.

Lemma NoDup_drop_key k l : NoDup (map fst l) -> NoDup (map fst (drop_key k l)).
Proof. apply NoDup_map_fst_filter. Qed.

Lemma hand_out_nonempty w a c :
  w_unused w <> [] ->
  exists k r, w_unused w = r ++ [k] /\
              hand_out w a c = (Some k, mkW (w_keys w) r (drop_key k (w_annot w) ++ [(k, a)])).
Proof.
  intros Hne. unfold hand_out. destruct (rev (w_unused w)) as [|k r] eqn:E.
  - exfalso. apply Hne. rewrite <- (rev_involutive (w_unused w)), E. reflexivity.
  - exists k, (rev r). split; [|reflexivity].
    rewrite <- (rev_involutive (w_unused w)), E. reflexivity.
Qed.

Lemma hand_out_exhausted w a c : w_unused w = [] -> hand_out w a c = (nth_error (w_keys w) c, w).
Proof. intros E. unfold hand_out. rewrite E. reflexivity. Qed.

Lemma restore_some w k :
  In k (map fst (w_annot w)) ->
  restore w k = Some (mkW (w_keys w) (w_unused w ++ [k]) (drop_key k (w_annot w))).
Proof.
  intros H. unfold restore.
  assert (E : existsb (fun e => fst e =? k) (w_annot w) = true).
  { apply in_map_iff in H. destruct H as [e [He Hin]]. apply existsb_exists. exists e.
    split; [exact Hin|]. apply N.eqb_eq. exact He. }
  rewrite E. reflexivity.
Qed.

Lemma restore_inv w k w' :
  restore w k = Some w' ->
  In k (map fst (w_annot w)) /\ w' = mkW (w_keys w) (w_unused w ++ [k]) (drop_key k (w_annot w)).
Proof.
  intros H. unfold restore in H. destruct (existsb (fun e => fst e =? k) (w_annot w)) eqn:E; [|discriminate].
  inversion H. split; [|reflexivity].
  apply existsb_exists in E. destruct E as [e [Hin He]]. apply N.eqb_eq in He. subst k. apply in_map. exact Hin.
Qed.

Lemma WInv_generate w k : WInv w -> ~ In k (w_keys w) -> WInv (generate w k).
Proof.
  intros (Hu & Ha & Huk & Hak & Hdis) Hf. unfold generate, WInv. cbn [w_keys w_unused w_annot].
  split; [apply NoDup_snoc; auto|]. split; [exact Ha|]. split.
  { intros x Hx. apply in_app_or in Hx. apply in_or_app. destruct Hx as [Hx|Hx]; [left; auto|right; exact Hx]. }
  split.
  { intros x Hx. apply in_or_app. left. auto. }
  intros x Hx. apply in_app_or in Hx. destruct Hx as [Hx|[Hx|[]]]; [auto|]. subst x. intros Hc. apply Hf. auto.
Qed.

Lemma WInv_hand_out w a c : WInv w -> w_unused w <> [] -> WInv (snd (hand_out w a c)).
Proof.
  intros (Hu & Ha & Huk & Hak & Hdis) Hne.
  destruct (hand_out_nonempty w a c Hne) as [k [r [Eu Eh]]]. rewrite Eh. cbn [snd].
  rewrite Eu in Hu, Huk, Hdis. apply NoDup_snoc_inv in Hu. destruct Hu as [Hr Hkr].
  unfold WInv. cbn [w_keys w_unused w_annot]. rewrite map_app. cbn [map fst].
  split; [exact Hr|]. split.
  { apply NoDup_snoc; [apply NoDup_drop_key; exact Ha|]. intros Hc. apply in_drop_key in Hc. tauto. }
  split.
  { intros x Hx. apply Huk. apply in_or_app. auto. }
  split.
  { intros x Hx. apply in_app_or in Hx. destruct Hx as [Hx|[Hx|[]]].
    - apply in_drop_key in Hx. apply Hak. tauto.
    - subst x. apply Huk. apply in_or_app. right. left. reflexivity. }
  intros x Hx Hc. apply in_app_or in Hc. destruct Hc as [Hc|[Hc|[]]].
  - apply in_drop_key in Hc. apply (Hdis x); [apply in_or_app; auto|tauto].
  - subst x. auto.
Qed.

Lemma WInv_restore w k w' : WInv w -> restore w k = Some w' -> WInv w'.
Proof.
  intros (Hu & Ha & Huk & Hak & Hdis) H. apply restore_inv in H. destruct H as [Hk ->].
  unfold WInv. cbn [w_keys w_unused w_annot].
  split; [apply NoDup_snoc; [exact Hu|]; intros Hc; apply (Hdis k Hc Hk)|].
  split; [apply NoDup_drop_key; exact Ha|]. split.
  { intros x Hx. apply in_app_or in Hx. destruct Hx as [Hx|[Hx|[]]]; [auto|subst x; auto]. }
  split.
  { intros x Hx. apply in_drop_key in Hx. apply Hak. tauto. }
  intros x Hx Hc. apply in_drop_key in Hc. destruct Hc as [Hc Hne].
  apply in_app_or in Hx. destruct Hx as [Hx|[Hx|[]]]; [apply (Hdis x Hx Hc)|congruence].
Qed.

(* B1 *)
Theorem partition_inv w :
  WInv w ->
  (forall k, ~ In k (w_keys w) -> WInv (generate w k)) /\
  (forall a c, w_unused w <> [] -> WInv (snd (hand_out w a c))) /\
  (forall k, In k (map fst (w_annot w)) -> exists w', restore w k = Some w' /\ WInv w').
Proof.
  intros HI. split; [intros k Hk; apply WInv_generate; auto|].
  split; [intros a c Hne; apply WInv_hand_out; auto|].
  intros k Hk. eexists. split; [apply restore_some; exact Hk|].
  eapply WInv_restore; [exact HI|apply restore_some; exact Hk].
Qed.

(* a non-exhausted hand_out returns the LAST unused key, removes it from unused and annotates it *)
Lemma hand_out_effect w a c :
  WInv w -> w_unused w <> [] ->
  exists k, fst (hand_out w a c) = Some k /\ In k (w_unused w) /\ In k (w_keys w) /\
            ~ In k (w_unused (snd (hand_out w a c))) /\ In k (map fst (w_annot (snd (hand_out w a c)))) /\
            w_keys (snd (hand_out w a c)) = w_keys w /\
            (forall x, In x (w_unused (snd (hand_out w a c))) -> In x (w_unused w)).
Proof.
  intros (Hu & Ha & Huk & Hak & Hdis) Hne.
  destruct (hand_out_nonempty w a c Hne) as [k [r [Eu Eh]]]. rewrite Eh. cbn [fst snd w_unused w_keys w_annot].
  exists k. rewrite Eu in Hu. apply NoDup_snoc_inv in Hu. destruct Hu as [Hr Hkr].
  assert (Hin : In k (w_unused w)) by (rewrite Eu; apply in_or_app; right; left; reflexivity).
  split; [reflexivity|]. split; [exact Hin|]. split; [auto|]. split; [exact Hkr|].
  split; [rewrite map_app; apply in_or_app; right; left; reflexivity|]. split; [reflexivity|].
  intros x Hx. rewrite Eu. apply in_or_app. auto.
Qed.

(* ---------- B2 : runs of operations ---------- *)
Inductive wop := OHand (a : N) (choice : nat) | OGen (k : N) | ORestore (k : N).
Inductive wevent := EHanded (k : N) | ERestored (k : N) | EQuiet.

(* One step.  The wallet always moves by the model functions.  The log records
   - EHanded k   : a hand_out on a NON-exhausted wallet returned k (exhausted hand_outs are not counted: EQuiet);
   - ERestored k : restore k SUCCEEDED (k was annotated); a failing restore (KeyError) changes nothing: EQuiet. *)
Definition wstep (w : wallet) (o : wop) : wevent * wallet :=
  match o with
  | OHand a c =>
      (match w_unused w, fst (hand_out w a c) with
       | _ :: _, Some k => EHanded k
       | _, _ => EQuiet
       end, snd (hand_out w a c))
  | OGen k => (EQuiet, generate w k)
  | ORestore k => match restore w k with Some w' => (ERestored k, w') | None => (EQuiet, w) end
  end.

Fixpoint wrun (w : wallet) (ops : list wop) : list wevent :=
  match ops with
  | [] => []
  | o :: rest => fst (wstep w o) :: wrun (snd (wstep w o)) rest
  end.

(* every generate in the run produces a key that is not yet in the wallet *)
Fixpoint gens_fresh (w : wallet) (ops : list wop) : Prop :=
  match ops with
  | [] => True
  | o :: rest =>
      match o with OGen k => ~ In k (w_keys w) | _ => True end /\ gens_fresh (snd (wstep w o)) rest
  end.

Lemma wstep_WInv w o :
  WInv w -> match o with OGen k => ~ In k (w_keys w) | _ => True end -> WInv (snd (wstep w o)).
Proof.
  intros HI Hf. destruct o as [a c|k|k]; cbn [wstep snd].
  - destruct (w_unused w) eqn:E.
    + rewrite hand_out_exhausted by exact E. exact HI.
    + apply WInv_hand_out; [exact HI|congruence].
  - apply WInv_generate; auto.
  - destruct (restore w k) as [w'|] eqn:E; cbn [snd]; [eapply WInv_restore; eauto|exact HI].
Qed.

(* a key of the wallet that is not in the unused list stays so unless it is restored; it is never handed out *)
Lemma wstep_absent w o k :
  WInv w -> match o with OGen k => ~ In k (w_keys w) | _ => True end ->
  In k (w_keys w) -> ~ In k (w_unused w) ->
  fst (wstep w o) <> EHanded k /\
  (fst (wstep w o) = ERestored k \/
   (In k (w_keys (snd (wstep w o))) /\ ~ In k (w_unused (snd (wstep w o))))).
Proof.
  intros HI Hf Hk Hnu. destruct o as [a c|k0|k0]; cbn [wstep fst snd].
  - destruct (w_unused w) as [|u us] eqn:E.
    + rewrite hand_out_exhausted by exact E. cbn [snd]. split; [discriminate|]. right. rewrite E. auto.
    + assert (Hne : w_unused w <> []) by congruence.
      destruct (hand_out_effect w a c HI Hne) as [k1 (E1 & Hin1 & _ & _ & _ & Ek & Hsub)].
      rewrite E1. split.
      * intros Hc. inversion Hc; subst k1. apply Hnu. rewrite <- E. exact Hin1.
      * right. rewrite Ek. split; [exact Hk|]. intros Hc. apply Hnu. rewrite <- E. auto.
  - split; [discriminate|]. right. unfold generate. cbn [w_keys w_unused]. split; [apply in_or_app; auto|].
    intros Hc. apply in_app_or in Hc. destruct Hc as [Hc|[Hc|[]]]; [auto|]. subst k0. auto.
  - destruct (restore w k0) as [w'|] eqn:E; cbn [fst snd].
    + split; [discriminate|]. destruct (N.eq_dec k0 k) as [->|Hne]; [left; reflexivity|right].
      apply restore_inv in E. destruct E as [_ ->]. cbn [w_keys w_unused]. split; [exact Hk|].
      intros Hc. apply in_app_or in Hc. destruct Hc as [Hc|[Hc|[]]]; [auto|congruence].
    + split; [discriminate|]. right. auto.
Qed.

Lemma absent_needs_restore ops : forall w k j,
  WInv w -> gens_fresh w ops -> In k (w_keys w) -> ~ In k (w_unused w) ->
  nth_error (wrun w ops) j = Some (EHanded k) ->
  exists m, (m < j)%nat /\ nth_error (wrun w ops) m = Some (ERestored k).
Proof.
  induction ops as [|o ops IH]; intros w k j HI Hg Hk Hnu Hj.
  - destruct j; discriminate.
  - cbn [gens_fresh] in Hg. destruct Hg as [Hf Hg]. cbn [wrun] in *.
    destruct (wstep_absent w o k HI Hf Hk Hnu) as [Hnh Hnext].
    destruct j as [|j]; cbn [nth_error] in Hj; [inversion Hj; congruence|].
    destruct Hnext as [Hr|[Hk' Hnu']].
    + exists 0%nat. split; [lia|]. cbn. rewrite Hr. reflexivity.
    + destruct (IH _ _ _ (wstep_WInv w o HI Hf) Hg Hk' Hnu' Hj) as [m [Hm Hnm]].
      exists (S m). split; [lia|exact Hnm].
Qed.

(* B2 *)
Theorem no_reuse ops : forall w i j k,
  WInv w -> gens_fresh w ops -> (i < j)%nat ->
  nth_error (wrun w ops) i = Some (EHanded k) ->
  nth_error (wrun w ops) j = Some (EHanded k) ->
  exists m, (i < m < j)%nat /\ nth_error (wrun w ops) m = Some (ERestored k).
Proof.
  induction ops as [|o ops IH]; intros w i j k HI Hg Hij Hi Hj.
  - destruct i; discriminate.
  - cbn [gens_fresh] in Hg. destruct Hg as [Hf Hg]. cbn [wrun] in *.
    destruct j as [|j]; [lia|]. cbn [nth_error] in Hj.
    pose proof (wstep_WInv w o HI Hf) as HI'.
    destruct i as [|i]; cbn [nth_error] in Hi.
    + (* the head op handed out k *)
      assert (Hst : In k (w_keys (snd (wstep w o))) /\ ~ In k (w_unused (snd (wstep w o)))).
      { destruct o as [a c|k0|k0]; cbn [wstep fst snd] in *.
        - destruct (w_unused w) as [|u us] eqn:E; [destruct (fst (hand_out w a c)); discriminate|].
          assert (Hne : w_unused w <> []) by congruence.
          destruct (hand_out_effect w a c HI Hne) as [k1 (E1 & _ & Hk1 & Hnu1 & _ & Ek & _)].
          rewrite E1 in Hi. inversion Hi; subst k1. rewrite Ek. auto.
        - discriminate.
        - destruct (restore w k0); discriminate. }
      destruct Hst as [Hk' Hnu'].
      destruct (absent_needs_restore ops _ _ _ HI' Hg Hk' Hnu' Hj) as [m [Hm Hnm]].
      exists (S m). split; [lia|exact Hnm].
    + destruct (IH _ i j k HI' Hg ltac:(lia) Hi Hj) as [m [Hm Hnm]].
      exists (S m). split; [lia|exact Hnm].
Qed.

(* the log is faithful: EHanded k in the log means the model's hand_out returned k on a non-exhausted wallet, and
   ERestored k means the model's restore succeeded *)
Lemma wstep_handed w o k :
  fst (wstep w o) = EHanded k <-> exists a c, o = OHand a c /\ w_unused w <> [] /\ fst (hand_out w a c) = Some k.
Proof.
  split.
  - destruct o as [a c|k0|k0]; cbn [wstep fst].
    + intros H. exists a, c. destruct (w_unused w) eqn:E; [discriminate|].
      destruct (fst (hand_out w a c)); [|discriminate]. inversion H. repeat split; congruence.
    + discriminate.
    + destruct (restore w k0); discriminate.
  - intros (a & c & -> & Hne & E). cbn [wstep fst]. rewrite E. destruct (w_unused w); congruence.
Qed.

Lemma wstep_restored w o k :
  fst (wstep w o) = ERestored k <-> o = ORestore k /\ restore w k <> None.
Proof.
  split.
  - destruct o as [a c|k0|k0]; cbn [wstep fst].
    + destruct (w_unused w); [discriminate|]. destruct (fst (hand_out w a c)); discriminate.
    + discriminate.
    + destruct (restore w k0) eqn:E; [|discriminate]. cbn. intros H. inversion H; subst. split; congruence.
  - intros [-> H]. cbn [wstep]. destruct (restore w k); [reflexivity|congruence].
Qed.

(* ---------- B3 : exhausted wallet (recorded finding) ---------- *)
Theorem exhausted_restore_refuted : exists w c k2 w4,
  let s1 := hand_out w 10 0 in
  let s2 := hand_out (snd s1) 11 0 in
  let s3 := hand_out (snd s2) 12 c in
  WInv w /\ w_unused w <> [] /\ w_unused (snd s1) <> [] /\
  w_unused (snd s2) = [] /\                       (* exhausted after two hand_outs *)
  fst s2 = Some k2 /\                              (* k2 was handed out (and published) *)
  fst s3 = Some k2 /\ snd s3 = snd s2 /\           (* the fallback returns k2 again and records nothing *)
  restore (snd s3) k2 = Some w4 /\                 (* restore succeeds: k2 is annotated *)
  In k2 (w_unused w4) /\                           (* k2 is now listed as unused *)
  fst (hand_out w4 13 0) = Some k2.                (* and is handed out a third time *)
Proof.
  exists (mkW [1; 2] [1; 2] []), 0%nat, 1, (mkW [1; 2] [1] [(2, 10)]).
  cbv zeta. split.
  { unfold WInv; cbn. repeat split; try tauto; repeat constructor; cbn; intuition congruence. }
  vm_compute. repeat split; try discriminate; auto.
Qed.

(* ================================================================== *)
(* PART C : atomic replacement                                         *)
(* ================================================================== *)

Definition run_ops (f : fs) (ops : list fsop) : fs := fold_left fs_apply ops f.

Lemma run_ops_app f l1 l2 : run_ops f (l1 ++ l2) = run_ops (run_ops f l1) l2.
Proof. apply fold_left_app. Qed.

Lemma fs_get_filter_ne f n m : n <> m -> fs_get (filter (fun e => negb (fst e =? n)) f) m = fs_get f m.
Proof.
  intros Hne. unfold fs_get. induction f as [|e f IH]; [reflexivity|].
  cbn [filter find]. destruct (fst e =? n) eqn:E; cbn [negb].
  - apply N.eqb_eq in E. assert (E' : fst e =? m = false) by (apply N.eqb_neq; congruence).
    rewrite E'. exact IH.
  - cbn [find]. destruct (fst e =? m); [reflexivity|exact IH].
Qed.

Lemma fs_get_filter_eq f n : fs_get (filter (fun e => negb (fst e =? n)) f) n = None.
Proof.
  unfold fs_get. induction f as [|e f IH]; [reflexivity|].
  cbn [filter]. destruct (fst e =? n) eqn:E; cbn [negb]; [exact IH|]. cbn [find]. rewrite E. exact IH.
Qed.

Lemma fs_get_set_eq f n c : fs_get (fs_set f n c) n = Some c.
Proof. unfold fs_get, fs_set. cbn [find fst]. rewrite N.eqb_refl. reflexivity. Qed.

Lemma fs_get_set_ne f n c m : n <> m -> fs_get (fs_set f n c) m = fs_get f m.
Proof.
  intros Hne. unfold fs_set. unfold fs_get at 1. cbn [find fst].
  assert (E : n =? m = false) by (apply N.eqb_neq; exact Hne). rewrite E.
  apply (fs_get_filter_ne f n m Hne).
Qed.

Lemma fs_get_del_ne f n m : n <> m -> fs_get (fs_del f n) m = fs_get f m.
Proof. apply fs_get_filter_ne. Qed.

(* operations that touch only the side file *)
Definition side_only (side : N) (o : fsop) : Prop :=
  match o with OpenTrunc n | Write n _ | Close n => n = side | Rename _ _ => False end.

Lemma side_only_frame side target f o : side <> target -> side_only side o -> fs_get (fs_apply f o) target = fs_get f target.
Proof.
  intros Hne Ho. destruct o as [n|n c|n|s d]; cbn in Ho; try subst n; cbn [fs_apply].
  - apply fs_get_set_ne; exact Hne.
  - apply fs_get_set_ne; exact Hne.
  - reflexivity.
  - destruct Ho.
Qed.

Lemma side_only_run side target l : forall f,
  side <> target -> Forall (side_only side) l -> fs_get (run_ops f l) target = fs_get f target.
Proof.
  induction l as [|o l IH]; intros f Hne Hall; [reflexivity|].
  inversion Hall; subst. cbn [run_ops fold_left]. fold (run_ops (fs_apply f o) l).
  rewrite IH by auto. apply side_only_frame with side; auto.
Qed.

Lemma Forall_firstn {A} (P : A -> Prop) n : forall l, Forall P l -> Forall P (firstn n l).
Proof.
  induction n as [|n IH]; intros l H; [constructor|].
  destruct l; [constructor|]. inversion H; subst. cbn. constructor; auto.
Qed.

Lemma writes_content side chunks : forall f c0,
  fs_get f side = Some c0 ->
  fs_get (run_ops f (map (Write side) chunks)) side = Some (c0 ++ concat chunks).
Proof.
  induction chunks as [|c chunks IH]; intros f c0 H.
  - cbn. rewrite app_nil_r. exact H.
  - cbn [map run_ops fold_left concat]. fold (run_ops (fs_apply f (Write side c)) (map (Write side) chunks)).
    rewrite (IH _ (c0 ++ c)).
    + rewrite app_assoc. reflexivity.
    + cbn [fs_apply]. rewrite H. apply fs_get_set_eq.
Qed.

Definition save_pre (side : N) (chunks : list (list N)) : list fsop :=
  OpenTrunc side :: map (Write side) chunks ++ [Close side].

Lemma save_ops_split side target chunks :
  save_ops side target chunks = save_pre side chunks ++ [Rename side target].
Proof. unfold save_ops, save_pre. cbn [app]. rewrite <- app_assoc. reflexivity. Qed.

Lemma save_pre_side_only side chunks : Forall (side_only side) (save_pre side chunks).
Proof.
  unfold save_pre. constructor; [reflexivity|]. apply Forall_app. split.
  - apply Forall_forall. intros o Ho. apply in_map_iff in Ho. destruct Ho as [c [<- _]]. reflexivity.
  - constructor; [reflexivity|constructor].
Qed.

Lemma save_pre_content side chunks f : fs_get (run_ops f (save_pre side chunks)) side = Some (concat chunks).
Proof.
  unfold save_pre. cbn [run_ops fold_left]. fold (run_ops (fs_apply f (OpenTrunc side)) (map (Write side) chunks ++ [Close side])).
  rewrite run_ops_app. cbn [run_ops fold_left fs_apply].
  fold (run_ops (fs_set f side []) (map (Write side) chunks)).
  rewrite (writes_content side chunks _ []); [reflexivity|apply fs_get_set_eq].
Qed.

(* C1 *)
Theorem save_atomic side target chunks f :
  side <> target ->
  let ops := save_ops side target chunks in
  (* every prefix: old or new *)
  (forall n, fs_get (run_ops f (firstn n ops)) target = fs_get f target \/
             fs_get (run_ops f (firstn n ops)) target = Some (concat chunks)) /\
  (* complete list: new *)
  fs_get (run_ops f ops) target = Some (concat chunks) /\
  (* every proper prefix: still exactly the old state (content or absence) *)
  (forall n, (n < length ops)%nat -> fs_get (run_ops f (firstn n ops)) target = fs_get f target).
Proof.
  intros Hne ops.
  assert (Hfull : fs_get (run_ops f ops) target = Some (concat chunks)).
  { unfold ops. rewrite save_ops_split, run_ops_app. cbn [run_ops fold_left fs_apply].
    rewrite save_pre_content. apply fs_get_set_eq. }
  assert (Hproper : forall n, (n < length ops)%nat -> fs_get (run_ops f (firstn n ops)) target = fs_get f target).
  { intros n Hn. unfold ops in *. rewrite save_ops_split in *. rewrite app_length in Hn. cbn [length] in Hn.
    rewrite firstn_app. replace (n - length (save_pre side chunks))%nat with 0%nat by lia.
    cbn [firstn]. rewrite app_nil_r.
    apply side_only_run with side; [exact Hne|]. apply Forall_firstn. apply save_pre_side_only. }
  split; [|split; assumption].
  intros n. destruct (Nat.lt_ge_cases n (length ops)) as [Hn|Hn].
  - left. apply Hproper. exact Hn.
  - right. rewrite firstn_all2 by exact Hn. exact Hfull.
Qed.

(* "the target shows the new content only when the prefix is the complete list" — precisely: whenever the new content
   differs from the old state, a prefix showing the new content is the whole list *)
Corollary save_new_only_at_end side target chunks f n :
  side <> target -> fs_get f target <> Some (concat chunks) ->
  fs_get (run_ops f (firstn n (save_ops side target chunks))) target = Some (concat chunks) ->
  firstn n (save_ops side target chunks) = save_ops side target chunks.
Proof.
  intros Hne Hold Hnew. destruct (Nat.lt_ge_cases n (length (save_ops side target chunks))) as [Hn|Hn].
  - exfalso. apply Hold. rewrite <- Hnew. symmetry.
    apply (proj2 (proj2 (save_atomic side target chunks f Hne))). exact Hn.
  - apply firstn_all2. exact Hn.
Qed.

(* C2 *)
Definition inplace_ops (target : N) (chunks : list (list N)) : list fsop :=
  OpenTrunc target :: map (Write target) chunks ++ [Close target].

Theorem inplace_not_atomic_refuted : exists f target chunks old n,
  fs_get f target = Some old /\
  fs_get (run_ops f (firstn n (inplace_ops target chunks))) target <> Some old /\
  fs_get (run_ops f (firstn n (inplace_ops target chunks))) target <> Some (concat chunks) /\
  fs_get (run_ops f (inplace_ops target chunks)) target = Some (concat chunks).
Proof.
  exists [(1, [7])], 1, [[8]; [9]], [7], 2%nat.
  vm_compute. repeat split; discriminate.
Qed.

(* the in-place write does reach the new content at the end, for every file system and chunk list *)
Theorem inplace_final target chunks f :
  fs_get (run_ops f (inplace_ops target chunks)) target = Some (concat chunks).
Proof. exact (save_pre_content target chunks f). Qed.

