From Coq Require Import ZArith List Bool Lia ZifyBool.
From SkV Require Import Subsidy.
Open Scope Z_scope.

Section Sub.
  Variables interval initial : Z.
  Hypothesis Hint : 0 < interval.
  Hypothesis Hini : 0 <= initial.
  Hypothesis Hsmall : initial < 2 ^ 64.
  Notation sub := (subsidy interval initial).

  (* the `>= 64` cut-off is invisible: the plain halving formula already gives 0 there *)
  Lemma subsidy_value h : 0 <= h -> sub h = initial / 2 ^ (h / interval).
  Proof.
    intros Hh. unfold subsidy. destruct (h / interval >=? 64) eqn:E; [|reflexivity].
    symmetry. apply Z.div_small. split; [lia|].
    eapply Z.lt_le_trans; [exact Hsmall|]. apply Z.pow_le_mono_r; lia.
  Qed.

  Lemma subsidy_nonneg h : 0 <= h -> 0 <= sub h.
  Proof. intros Hh. rewrite subsidy_value by lia. apply Z.div_pos; [lia|]. apply Z.pow_pos_nonneg; [lia|].
    apply Z.div_pos; lia. Qed.

  Lemma subsidy_antitone h1 h2 : 0 <= h1 <= h2 -> sub h2 <= sub h1.
  Proof.
    intros [H1 H2]. rewrite !subsidy_value by lia.
    assert (Hq : 0 <= h1 / interval <= h2 / interval).
    { split; [apply Z.div_pos; lia | apply Z.div_le_mono; lia]. }
    apply Z.div_le_compat_l; [lia|]. split.
    - apply Z.pow_pos_nonneg; lia.
    - apply Z.pow_le_mono_r; lia.
  Qed.

  Lemma subsidy_zero_from k h : 0 <= k -> initial < 2 ^ k -> k * interval <= h -> sub h = 0.
  Proof.
    intros Hk Hlt Hh. assert (0 <= h) by nia. rewrite subsidy_value by lia.
    apply Z.div_small. split; [lia|]. eapply Z.lt_le_trans; [exact Hlt|].
    apply Z.pow_le_mono_r; [lia|]. apply Z.div_le_lower_bound; lia.
  Qed.

  (* inside era k the subsidy is the constant initial / 2^k *)
  Lemma subsidy_in_era k r : 0 <= k -> 0 <= r < interval -> sub (k * interval + r) = initial / 2 ^ k.
  Proof.
    intros Hk Hr. rewrite subsidy_value by nia. f_equal. f_equal.
    rewrite Z.add_comm, Z.div_add by lia. rewrite Z.div_small by lia. lia.
  Qed.

  Lemma sum_upto_app f n m : sum_upto f (n + m) = sum_upto f n + sum_upto (fun x => f (Z.of_nat n + x)) m.
  Proof.
    induction m as [|m IH]; cbn [sum_upto].
    - rewrite Nat.add_0_r. lia.
    - rewrite Nat.add_succ_r. cbn [sum_upto]. rewrite IH. rewrite Nat2Z.inj_add. lia.
  Qed.

  Lemma sum_upto_const f c n : (forall x, 0 <= x < Z.of_nat n -> f x = c) -> sum_upto f n = Z.of_nat n * c.
  Proof.
    induction n as [|n IH]; intros Hf; cbn [sum_upto]; [lia|].
    rewrite IH by (intros x Hx; apply Hf; lia). rewrite (Hf (Z.of_nat n)) by lia. lia.
  Qed.

  Fixpoint era_total (n : nat) : Z :=
    match n with O => 0 | S k => era_total k + initial / 2 ^ Z.of_nat k end.

  (* summed over the first n complete eras *)
  Lemma subsidy_era_sum n : sum_upto sub (n * Z.to_nat interval) = interval * era_total n.
  Proof.
    induction n as [|n IH]; [cbn [Nat.mul sum_upto era_total]; lia|].
    replace (S n * Z.to_nat interval)%nat with (n * Z.to_nat interval + Z.to_nat interval)%nat by lia.
    rewrite sum_upto_app, IH. cbn [era_total].
    rewrite (sum_upto_const (fun x => sub (Z.of_nat (n * Z.to_nat interval) + x)) (initial / 2 ^ Z.of_nat n)).
    - rewrite Z2Nat.id by lia. lia.
    - intros x Hx. rewrite Z2Nat.id in Hx by lia.
      rewrite Nat2Z.inj_mul, Z2Nat.id by lia. apply subsidy_in_era; lia.
  Qed.

  (* once the subsidy is exhausted the running total no longer moves *)
  Lemma sum_upto_zero_tail f n m : (forall x, Z.of_nat n <= x -> f x = 0) -> sum_upto f (n + m) = sum_upto f n.
  Proof.
    intros Hz. rewrite sum_upto_app. rewrite (sum_upto_const (fun x => f (Z.of_nat n + x)) 0 m); [lia|].
    intros x Hx. apply Hz. lia.
  Qed.

  Lemma subsidy_total k n : initial < 2 ^ Z.of_nat k -> (k * Z.to_nat interval <= n)%nat ->
    sum_upto sub n = interval * era_total k.
  Proof.
    intros Hlt Hn. replace n with (k * Z.to_nat interval + (n - k * Z.to_nat interval))%nat by lia.
    rewrite sum_upto_zero_tail; [apply subsidy_era_sum|].
    intros x Hx. apply (subsidy_zero_from (Z.of_nat k)); [lia|exact Hlt|].
    rewrite Nat2Z.inj_mul, Z2Nat.id in Hx by lia. lia.
  Qed.
End Sub.
