(* Observation K (DESIGN 11.10): the "outside bulk download" proviso of C09 is decided by a field the SENDER writes
   (MessageHeader.in_response_to).  In the node model -- as in remote_peer.py handle_block_received -- a delivery whose
   header claims to answer a request is applied with by-itself validation only unless its height is a multiple of
   IBD_VALIDATION_SKIP; whether the node ever sent such a request is not consulted.  So a block that FAILS in-state
   validation enters the served chain state, and the flush triggered by the next fully validated block commits it to
   the store.  Stated over the same model the C09 theorems use; the witnesses are closed terms. *)
From Coq Require Import NArith List Bool.
From SkV Require Import NodeModel.
Import ListNotations.
Open Scope N_scope.

Definition k_skip : N := 10000.
Definition k_valid (_ _ : N) : bool := true.
Definition k_conflict (_ _ : N) : bool := false.
Definition k_gen := mkAB 1 0 0.
Definition k_s0 : nstate := mkNS [k_gen] 1 [k_gen] 1 [] [] [1].       (* idle node: validated, flushed, nothing requested *)
Definition k_bad := mkAB 2 1 1.                                        (* fails in-state validation (e.g. inflated reward) *)
Definition k_bad_verdict := mkBV true true false.
Definition k_good := mkAB 3 1 1.                                       (* an honest sibling, relayed afterwards *)
Definition k_good_verdict := mkBV true true true.

(* labelled as a reply (irt0 = false): the rule-breaking block becomes the served head *)
Theorem reply_labelled_invalid_block_enters :
  let '(s', o) := handle_block k_skip k_valid k_s0 k_bad k_bad_verdict false in
  bv_instate k_bad_verdict = false /\ has_block (ns_blocks s') (ab_id k_bad) = true /\ ns_head s' = ab_id k_bad /\ o = [].
Proof. vm_compute. repeat split; reflexivity. Qed.

(* the same delivery not labelled as a reply is refused and leaves no trace (this is C09_rejected_leaves_no_trace) *)
Theorem same_block_unlabelled_is_refused :
  handle_block k_skip k_valid k_s0 k_bad k_bad_verdict true = (k_s0, []).
Proof. vm_compute. reflexivity. Qed.

(* ... and the next fully validated relayed block flushes the write buffer, the rule-breaking block included *)
Theorem reply_labelled_invalid_block_reaches_the_store :
  let '(s', _) := run k_skip k_valid k_conflict k_s0
                      [EBlock k_bad k_bad_verdict false; EBlock k_good k_good_verdict true] in
  In (ab_id k_bad) (ns_rows s') /\ has_block (ns_valid_blocks s') (ab_id k_bad) = true.
Proof. vm_compute. split; [right; left; reflexivity | reflexivity]. Qed.

(* for every state and block: with the label, in-state validation has no say off the skip heights *)
Theorem reply_label_bypasses_in_state_validation skip tx_valid_at s b v :
  has_block (ns_blocks s) (ab_id b) = false -> has_block (ns_blocks s) (ab_prev b) = true ->
  bv_itself v = true -> bv_apply v = true -> (ab_height b mod skip =? 0) = false ->
  has_block (ns_blocks (fst (handle_block skip tx_valid_at s b v false))) (ab_id b) = true.
Proof.
  intros Hn Hp Hi Ha Hs. unfold handle_block. rewrite Hn, Hp, Hi, Ha. cbn [negb orb]. rewrite Hs.
  cbn [fst set_state ns_blocks]. unfold has_block. rewrite existsb_app. cbn [existsb].
  rewrite N.eqb_refl. rewrite orb_true_l, orb_true_r. reflexivity.
Qed.
