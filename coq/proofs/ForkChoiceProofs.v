(* Fork choice of the chain state (coinstate.py add_block_no_validation / forks(), model/ChainState.v):
   for EVERY hash function [sha], EVERY block tree and EVERY parent-before-child arrival order
   ([arrivals sha l s], proofs/ChainDefs.v) the five maps are consistent, the reported tips are exactly the childless
   stored blocks, the active head is the earliest-arrived block of greatest height, the by-height index of every block
   lists exactly its ancestors, and forks() finds the last common ancestor with the active chain.

   Main results (all for arbitrary [sha], under [arrivals sha l s]):
     [fc_ids], [fc_dom_utxo], [fc_dom_byheight], [fc_dom_heads], [fc_parent], [fc_genesis_unique], [fc_path_exists],
     [fc_path_unique], [fc_path_height_strict], [fc_anc_height], [fc_tips], [fc_tips_lookup], [fc_tips_lookup_iff],
     [fc_head], [fc_index], [fc_lca].
   Method: one invariant [Inv l s] ([Inv_empty], [Inv_step], [Inv_arrivals]).  No injectivity of [sha] is assumed:
   functional facts come from ids being map keys ([stored_inj]) and from the freshness premise of [admissible].
   Non-vacuity: [Example.ex_arrivals], [Example.ex_head], [Example.ex_tips], [Example.ex_fc_head]. *)
From stdpp Require Import gmap.
From Coq Require Import NArith ZArith Lia.
From SkV Require Import Bytes Codec Ledger ChainState ChainDefs.
Open Scope N_scope.

(* ---------- bytes_eqb ---------- *)
Lemma bytes_eqb_eq a b : bytes_eqb a b = true <-> a = b.
Proof.
  revert b; induction a as [|x a IH]; intros [|y b]; cbn [bytes_eqb]; try (split; congruence).
  rewrite andb_true_iff, N.eqb_eq, IH. split.
  - intros [-> ->]; reflexivity.
  - intros H; injection H; auto.
Qed.
Lemma bytes_eqb_refl a : bytes_eqb a a = true.
Proof. apply bytes_eqb_eq; reflexivity. Qed.
Lemma bytes_eqb_neq a b : bytes_eqb a b = false <-> a <> b.
Proof.
  destruct (bytes_eqb a b) eqn:E.
  - apply bytes_eqb_eq in E. split; [discriminate | contradiction].
  - split; [|reflexivity]. intros _ ->. rewrite bytes_eqb_refl in E. discriminate.
Qed.

Section FC.
  Variable sha : bytes -> bytes.
  Notation bid := (block_id sha).
  Notation stored := (stored sha).
  Notation path := (path sha).
  Notation anc := (ancestor_or_self sha).
  Notation has_child := (has_child sha).
  Notation aidx := (arrival_index sha).

  (* ---------- add_nv, characterised ---------- *)
  Lemma add_nv_inv s b s' :
    add_nv sha s b = Some s' ->
    exists u1 bh cur,
      (if is_zero32 (b_prev b) then bh = {[ 0 := b ]}
       else exists m, cs_byheight s !! b_prev b = Some m /\ bh = <[ b_height b := b ]> m) /\
      (match cs_cur s with
       | None => cur = bid b
       | Some c => (c = b_prev b /\ cur = bid b) \/
                   (c <> b_prev b /\ exists cb, cs_blocks s !! c = Some cb /\
                                               cur = if b_height cb <? b_height b then bid b else c)
       end) /\
      s' = mkCS (<[ bid b := b ]> (cs_blocks s)) (<[ bid b := u1 ]> (cs_utxo s))
                (if is_zero32 (b_prev b) then {[ bid b := bh ]} else <[ bid b := bh ]> (cs_byheight s))
                (<[ bid b := b ]> (delete (b_prev b) (cs_heads s))) (Some cur).
  Proof.
    unfold add_nv. intros H.
    destruct (is_zero32 (b_prev b)) eqn:Ez.
    - destruct (uto_apply_block sha ∅ b) as [u1|] eqn:E1; [|discriminate].
      destruct (cs_cur s) as [c|] eqn:Ec.
      + destruct (bytes_eqb c (b_prev b)) eqn:Ecp.
        * apply bytes_eqb_eq in Ecp. injection H as <-. eexists _, _, _. split; [reflexivity|]. split; [|reflexivity].
          left; auto.
        * apply bytes_eqb_neq in Ecp. destruct (cs_blocks s !! c) as [cb|] eqn:Ecb; [|discriminate].
          injection H as <-. eexists _, _, _. split; [reflexivity|]. split; [|reflexivity].
          right; split; [exact Ecp|]. exists cb; auto.
      + injection H as <-. eexists _, _, _. split; [reflexivity|]. split; reflexivity.
    - destruct (cs_utxo s !! b_prev b) as [u0|] eqn:E0; [|discriminate].
      destruct (uto_apply_block sha u0 b) as [u1|] eqn:E1; [|discriminate].
      destruct (cs_byheight s !! b_prev b) as [m|] eqn:Em; [|discriminate].
      destruct (cs_cur s) as [c|] eqn:Ec.
      + destruct (bytes_eqb c (b_prev b)) eqn:Ecp.
        * apply bytes_eqb_eq in Ecp. injection H as <-. eexists _, _, _. split; [eauto|]. split; [|reflexivity].
          left; auto.
        * apply bytes_eqb_neq in Ecp. destruct (cs_blocks s !! c) as [cb|] eqn:Ecb; [|discriminate].
          injection H as <-. eexists _, _, _. split; [eauto|]. split; [|reflexivity].
          right; split; [exact Ecp|]. exists cb; auto.
      + injection H as <-. eexists _, _, _. split; [eauto|]. split; reflexivity.
  Qed.

  (* ---------- the structural invariant ---------- *)
  Record Inv0 (s : cstate) : Prop := {
    i_ids : forall h b, cs_blocks s !! h = Some b -> h = bid b;
    i_utxo : dom (cs_utxo s) = dom (cs_blocks s);
    i_bh : dom (cs_byheight s) = dom (cs_blocks s);
    i_parent : forall b, stored s b -> is_zero32 (b_prev b) = false ->
        exists p, cs_blocks s !! b_prev b = Some p /\ b_height b = b_height p + 1
  }.

  Lemma lookup_stored s h b : Inv0 s -> cs_blocks s !! h = Some b -> stored s b /\ h = bid b.
  Proof. intros H0 E. pose proof (i_ids _ H0 _ _ E) as ->. split; [exact E | reflexivity]. Qed.

  Lemma stored_inj s a b : stored s a -> stored s b -> bid a = bid b -> a = b.
  Proof. unfold ChainDefs.stored. intros Sa Sb E. rewrite E in Sa. congruence. Qed.

  Lemma parent_stored s b : Inv0 s -> stored s b -> is_zero32 (b_prev b) = false ->
    exists p, stored s p /\ b_prev b = bid p /\ b_height b = b_height p + 1.
  Proof.
    intros H0 Sb Zb. destruct (i_parent _ H0 _ Sb Zb) as (p & Ep & Hh).
    destruct (lookup_stored _ _ _ H0 Ep) as [Sp Eid]. exists p; auto.
  Qed.

  (* ---------- paths ---------- *)
  Lemma path_stored s l b : path s l b -> stored s b.
  Proof. destruct 1; assumption. Qed.

  Lemma path_last s l b : path s l b -> b ∈ l.
  Proof. destruct 1; set_solver. Qed.

  Lemma path_all_stored s l b : path s l b -> forall a, a ∈ l -> stored s a.
  Proof.
    induction 1 as [g Sg Zg | l p b P IH Sb Zb Eb]; intros a Ha.
    - apply elem_of_list_singleton in Ha as ->. exact Sg.
    - apply elem_of_app in Ha as [Ha|Ha]; [auto|]. apply elem_of_list_singleton in Ha as ->. exact Sb.
  Qed.

  Lemma path_height s l b : Inv0 s -> path s l b -> forall a, a ∈ l -> b_height a <= b_height b.
  Proof.
    intros H0. induction 1 as [g Sg Zg | l p b P IH Sb Zb Eb]; intros a Ha.
    - apply elem_of_list_singleton in Ha as ->. lia.
    - apply elem_of_app in Ha as [Ha|Ha].
      + destruct (parent_stored _ _ H0 Sb Zb) as (p' & Sp' & Ep' & Hh).
        assert (p' = p) as -> by (eapply stored_inj; eauto using path_stored; congruence).
        specialize (IH _ Ha). lia.
      + apply elem_of_list_singleton in Ha as ->. lia.
  Qed.

  Lemma path_height_strict s l p b : Inv0 s -> path s (l ++ [b]) b -> path s l p -> forall a, a ∈ l -> b_height a < b_height b.
  Proof.
    intros H0 Pb Pp a Ha.
    inversion Pb as [g Sg Zg El | l0 p0 b0 P0 Sb Zb Eb El]; subst.
    - destruct l; [set_solver | destruct l; discriminate].
    - apply app_inj_tail in El as [-> _].
      destruct (parent_stored _ _ H0 Sb Zb) as (p' & Sp' & Ep' & Hh).
      assert (p' = p0) as -> by (eapply stored_inj; eauto using path_stored; congruence).
      pose proof (path_height _ _ _ H0 P0 _ Ha). lia.
  Qed.

  Lemma path_unique s l l' x : Inv0 s -> path s l x -> path s l' x -> l = l'.
  Proof.
    intros H0 P. revert l'. induction P as [g Sg Zg | l p b P IH Sb Zb Eb]; intros l' P'.
    - inversion P' as [g' Sg' Zg' | l0 p' b' P0 Sb' Zb' Eb']; subst; [reflexivity | congruence].
    - inversion P' as [g' Sg' Zg' | l0 p' b' P0 Sb' Zb' Eb']; subst; [congruence|].
      assert (p' = p) as -> by (eapply stored_inj; eauto using path_stored; congruence).
      f_equal. apply IH. exact P0.
  Qed.

  Lemma anc_stored s a b : anc s a b -> stored s a /\ stored s b.
  Proof. intros (l & P & Ha). split; [eapply path_all_stored | eapply path_stored]; eauto. Qed.

  Lemma anc_height s a b : Inv0 s -> anc s a b -> b_height a <= b_height b.
  Proof. intros H0 (l & P & Ha). eapply path_height; eauto. Qed.

  (* ---------- one more block: paths and ancestry only depend on cs_blocks ---------- *)
  Section Step.
    Variables (s s' : cstate) (b : block).
    Hypothesis H0 : Inv0 s.
    Hypothesis Hfresh : cs_blocks s !! bid b = None.
    Hypothesis Hblocks : cs_blocks s' = <[ bid b := b ]> (cs_blocks s).

    Lemma stored_new : stored s' b.
    Proof. unfold ChainDefs.stored. rewrite Hblocks. apply lookup_insert. Qed.

    Lemma stored_old x : stored s x -> stored s' x.
    Proof.
      unfold ChainDefs.stored. intros Sx. rewrite Hblocks, lookup_insert_ne; [exact Sx|]. congruence.
    Qed.

    Lemma stored_old_ne x : stored s x -> bid x <> bid b.
    Proof. unfold ChainDefs.stored. intros Sx E. congruence. Qed.

    Lemma stored_inv x : stored s' x -> x = b \/ (stored s x /\ bid x <> bid b).
    Proof.
      unfold ChainDefs.stored. rewrite Hblocks. intros Sx. destruct (decide (bid x = bid b)) as [E|E].
      - rewrite E, lookup_insert in Sx. left; congruence.
      - rewrite lookup_insert_ne in Sx by congruence. right; auto.
    Qed.

    Lemma no_child_of_new x : stored s x -> is_zero32 (b_prev x) = false -> b_prev x <> bid b.
    Proof. intros Sx Zx E. destruct (i_parent _ H0 _ Sx Zx) as (p & Ep & _). congruence. Qed.

    Lemma path_mono l x : path s l x -> path s' l x.
    Proof.
      induction 1 as [g Sg Zg | l p x P IH Sx Zx Ex].
      - apply path_gen; auto using stored_old.
      - eapply path_step; eauto using stored_old.
    Qed.

    Lemma path_old l x : path s' l x -> stored s x -> path s l x.
    Proof.
      induction 1 as [g Sg Zg | l p x P IH Sx Zx Ex]; intros Sx0.
      - apply path_gen; auto.
      - destruct (stored_inv p (path_stored _ _ _ P)) as [-> | [Sp _]].
        + exfalso. eapply no_child_of_new; eauto.
        + eapply path_step; eauto.
    Qed.

    Lemma anc_old a x : stored s x -> anc s' a x <-> anc s a x.
    Proof.
      intros Sx. split; intros (l & P & Ha); exists l; split; auto using path_mono, path_old.
    Qed.

    Lemma path_new_gen l : is_zero32 (b_prev b) = true -> path s' l b <-> l = [b].
    Proof.
      intros Zb. split.
      - inversion 1; subst; [reflexivity | congruence].
      - intros ->. apply path_gen; auto using stored_new.
    Qed.

    Lemma path_new_step l p : is_zero32 (b_prev b) = false -> stored s p -> b_prev b = bid p ->
      path s' l b <-> exists l0, l = l0 ++ [b] /\ path s l0 p.
    Proof.
      intros Zb Sp Ep. split.
      - inversion 1 as [g Sg Zg | l0 p' b' P0 Sb' Zb' Eb']; subst; [congruence|].
        exists l0; split; [reflexivity|].
        destruct (stored_inv p' (path_stored _ _ _ P0)) as [-> | [Sp' _]].
        + exfalso. apply (stored_old_ne _ Sp). congruence.
        + assert (p' = p) as -> by (eapply stored_inj; eauto; congruence).
          apply path_old; auto.
      - intros (l0 & -> & P0). eapply path_step; eauto using path_mono, stored_new.
    Qed.

    Lemma anc_new_gen a : is_zero32 (b_prev b) = true -> anc s' a b <-> a = b.
    Proof.
      intros Zb. split.
      - intros (l & P & Ha). apply path_new_gen in P as ->; auto. set_solver.
      - intros ->. exists [b]. split; [apply path_new_gen; auto | set_solver].
    Qed.

    Lemma anc_new_step a p : is_zero32 (b_prev b) = false -> stored s p -> b_prev b = bid p ->
      (exists lp, path s lp p) ->
      anc s' a b <-> a = b \/ anc s a p.
    Proof.
      intros Zb Sp Ep (lp & Pp). split.
      - intros (l & P & Ha). apply (path_new_step _ p) in P as (l0 & -> & P0); auto.
        apply elem_of_app in Ha as [Ha|Ha]; [right; exists l0; auto | left; set_solver].
      - intros [-> | (l0 & P0 & Ha)].
        + exists (lp ++ [b]). split; [apply (path_new_step _ p); eauto | set_solver].
        + exists (l0 ++ [b]). split; [apply (path_new_step _ p); eauto | set_solver].
    Qed.

    Lemma has_child_old x : stored s x -> has_child s' x <-> has_child s x \/ (is_zero32 (b_prev b) = false /\ b_prev b = bid x).
    Proof.
      intros Sx. split.
      - intros (c & Sc & Zc & Ec). destruct (stored_inv c Sc) as [-> | [Sc' _]]; [right; auto|].
        left. exists c; auto.
      - intros [(c & Sc & Zc & Ec) | [Zb Eb]].
        + exists c; auto using stored_old.
        + exists b; auto using stored_new.
    Qed.

    Lemma no_child_new : (is_zero32 (b_prev b) = false -> b_prev b <> bid b) -> ~ has_child s' b.
    Proof.
      intros Hne (c & Sc & Zc & Ec). destruct (stored_inv c Sc) as [-> | [Sc' _]].
      - apply Hne; auto.
      - eapply no_child_of_new; eauto.
    Qed.

    Lemma heads_step (heads : gmap bytes block) :
      (forall h t, heads !! h = Some t <-> stored s t /\ bid t = h /\ ~ has_child s t) ->
      (is_zero32 (b_prev b) = false -> b_prev b <> bid b) ->
      (is_zero32 (b_prev b) = true -> cs_blocks s = ∅) ->
      forall h t, <[ bid b := b ]> (delete (b_prev b) heads) !! h = Some t <->
                  stored s' t /\ bid t = h /\ ~ has_child s' t.
    Proof.
      intros IH Hne Hg h t. destruct (decide (h = bid b)) as [->|Hh].
      - rewrite lookup_insert. split.
        + intros [= <-]. split; [apply stored_new|]. split; [reflexivity | apply no_child_new; exact Hne].
        + intros (St & Et & _). destruct (stored_inv t St) as [-> | [St' Hn]]; [reflexivity | congruence].
      - rewrite lookup_insert_ne by congruence. split.
        + intros E. apply lookup_delete_Some in E as [Hd E]. apply IH in E as (St & Et & Hc).
          split; [apply stored_old; exact St|]. split; [exact Et|].
          rewrite has_child_old by exact St. intros [Hc' | [Zb Eb]]; [auto | congruence].
        + intros (St & Et & Hc). destruct (stored_inv t St) as [-> | [St' Hn]]; [congruence|].
          rewrite has_child_old in Hc by exact St'. apply lookup_delete_Some. split.
          * intros Eb. apply Hc. right. split; [|congruence].
            destruct (is_zero32 (b_prev b)) eqn:Z; [|reflexivity]. exfalso.
            unfold ChainDefs.stored in St'. rewrite (Hg eq_refl), lookup_empty in St'. discriminate.
          * apply IH. split; [exact St'|]. split; [exact Et|]. intros Hc'. apply Hc. left; exact Hc'.
    Qed.
  End Step.

  (* ---------- arrival_index ---------- *)
  Lemma aidx_app_some l r h i : aidx l h = Some i -> aidx (l ++ r) h = Some i.
  Proof.
    revert i; induction l as [|x l IH]; intros i; cbn [arrival_index app]; [discriminate|].
    destruct (bytes_eqb (bid x) h); [auto|]. destruct (aidx l h) as [j|] eqn:E; [|discriminate].
    cbn [option_map]. intros [= <-]. rewrite (IH j eq_refl). reflexivity.
  Qed.

  Lemma aidx_lt l h i : aidx l h = Some i -> (i < length l)%nat.
  Proof.
    revert i; induction l as [|x l IH]; intros i; cbn [arrival_index length]; [discriminate|].
    destruct (bytes_eqb (bid x) h); [intros [= <-]; lia|]. destruct (aidx l h) as [j|] eqn:E; [|discriminate].
    cbn [option_map]. intros [= <-]. specialize (IH j eq_refl). lia.
  Qed.

  Lemma aidx_snoc_none l b h :
    aidx l h = None -> aidx (l ++ [b]) h = if bytes_eqb (bid b) h then Some (length l) else None.
  Proof.
    induction l as [|x l IH]; cbn [arrival_index app length].
    - intros _. destruct (bytes_eqb (bid b) h); reflexivity.
    - destruct (bytes_eqb (bid x) h); [discriminate|]. destruct (aidx l h) as [j|] eqn:E; [discriminate|].
      intros _. rewrite (IH eq_refl). destruct (bytes_eqb (bid b) h); reflexivity.
  Qed.

  (* ---------- the full invariant ---------- *)
  Definition head_spec (l : list block) (s : cstate) (hb : block) : Prop :=
    stored s hb /\
    (forall x, stored s x -> b_height x <= b_height hb) /\
    (forall x, stored s x -> b_height x = b_height hb -> bid x <> bid hb ->
       exists i j, aidx l (bid hb) = Some i /\ aidx l (bid x) = Some j /\ (i < j)%nat).

  Record Inv (l : list block) (s : cstate) : Prop := {
    i_inv0 : Inv0 s;
    i_gen : forall g g', stored s g -> stored s g' -> is_zero32 (b_prev g) = true -> is_zero32 (b_prev g') = true ->
                         g = g';
    i_heads : forall h t, cs_heads s !! h = Some t <-> stored s t /\ bid t = h /\ ~ has_child s t;
    i_cur : match cs_cur s with
            | None => cs_blocks s = ∅
            | Some c => exists hb, c = bid hb /\ head_spec l s hb
            end;
    i_arr : forall h, aidx l h = None <-> cs_blocks s !! h = None;
    i_path : forall x, stored s x -> exists p, path s p x /\ (length p <= size (cs_blocks s))%nat;
    i_index : forall x, stored s x -> exists m, cs_byheight s !! bid x = Some m /\
                forall k a, m !! k = Some a <-> (anc s a x /\ b_height a = k)
  }.

  Lemma not_stored_empty x : ~ stored cs_empty x.
  Proof. unfold ChainDefs.stored. cbn [cs_empty cs_blocks]. rewrite lookup_empty. discriminate. Qed.

  Lemma Inv0_empty : Inv0 cs_empty.
  Proof.
    split; cbn [cs_empty cs_blocks cs_utxo cs_byheight].
    - intros h b. rewrite lookup_empty. discriminate.
    - rewrite !dom_empty_L. reflexivity.
    - rewrite !dom_empty_L. reflexivity.
    - intros b Sb. destruct (not_stored_empty _ Sb).
  Qed.

  Lemma Inv_empty : Inv [] cs_empty.
  Proof.
    split.
    - exact Inv0_empty.
    - intros g g' Sg. destruct (not_stored_empty _ Sg).
    - intros h t. cbn [cs_empty cs_heads]. rewrite lookup_empty. split; [discriminate|].
      intros (St & _). destruct (not_stored_empty _ St).
    - reflexivity.
    - intros h. cbn [arrival_index cs_empty cs_blocks]. rewrite lookup_empty. tauto.
    - intros x Sx. destruct (not_stored_empty _ Sx).
    - intros x Sx. destruct (not_stored_empty _ Sx).
  Qed.

  (* ---------- preservation ---------- *)
  Lemma Inv0_step s b blocks' utxo' bh' heads' cur' u1 bh :
    Inv0 s -> admissible sha s b ->
    blocks' = <[ bid b := b ]> (cs_blocks s) ->
    utxo' = <[ bid b := u1 ]> (cs_utxo s) ->
    bh' = (if is_zero32 (b_prev b) then {[ bid b := bh ]} else <[ bid b := bh ]> (cs_byheight s)) ->
    Inv0 (mkCS blocks' utxo' bh' heads' cur').
  Proof.
    intros H0 [Hfresh Hadm] -> -> ->.
    set (s' := mkCS _ _ _ _ _).
    assert (Hblocks : cs_blocks s' = <[ bid b := b ]> (cs_blocks s)) by reflexivity.
    split.
    - intros h x. rewrite Hblocks. intros E. apply lookup_insert_Some in E as [[<- <-] | [_ E]]; [reflexivity|].
      eapply i_ids; eauto.
    - cbn [s' cs_utxo cs_blocks]. rewrite !dom_insert_L, (i_utxo _ H0). reflexivity.
    - cbn [s' cs_byheight cs_blocks]. destruct (is_zero32 (b_prev b)).
      + destruct Hadm as (_ & -> & _). rewrite dom_singleton_L, dom_insert_L, dom_empty_L. set_solver.
      + rewrite !dom_insert_L, (i_bh _ H0). reflexivity.
    - intros x Sx Zx. destruct (stored_inv s s' b Hblocks x Sx) as [-> | [Sx' _]].
      + rewrite Zx in Hadm. destruct Hadm as (p & Ep & Hh). exists p. split; [|exact Hh].
        rewrite Hblocks, lookup_insert_ne by congruence. exact Ep.
      + destruct (i_parent _ H0 _ Sx' Zx) as (p & Ep & Hh). exists p. split; [|exact Hh].
        rewrite Hblocks, lookup_insert_ne; [exact Ep|]. intros E. symmetry in E. revert E.
        eapply no_child_of_new; eauto.
  Qed.

  Lemma head_new l s b s' :
    Inv0 s -> cs_blocks s !! bid b = None -> cs_blocks s' = <[ bid b := b ]> (cs_blocks s) ->
    (forall x, stored s x -> b_height x < b_height b) ->
    head_spec (l ++ [b]) s' b.
  Proof.
    intros H0 Hfresh Hblocks Hlt. split; [eapply stored_new; eauto|]. split.
    - intros x Sx. destruct (stored_inv s s' b Hblocks x Sx) as [-> | [Sx' _]]; [lia|].
      specialize (Hlt _ Sx'). lia.
    - intros x Sx Hh Hne. destruct (stored_inv s s' b Hblocks x Sx) as [-> | [Sx' _]]; [congruence|].
      specialize (Hlt _ Sx'). lia.
  Qed.

  Lemma Inv_step l s b s' : Inv l s -> admissible sha s b -> add_nv sha s b = Some s' -> Inv (l ++ [b]) s'.
  Proof.
    intros HI Hadm0 Hadd. pose proof Hadm0 as [Hfresh Hadm].
    destruct (add_nv_inv _ _ _ Hadd) as (u1 & bh & cur & Hbh & Hcur & Es').
    pose proof (i_inv0 _ _ HI) as H0.
    assert (H0' : Inv0 s') by (rewrite Es'; eapply Inv0_step; eauto).
    assert (Hblocks : cs_blocks s' = <[ bid b := b ]> (cs_blocks s)) by (rewrite Es'; reflexivity).
    assert (Hheads : cs_heads s' = <[ bid b := b ]> (delete (b_prev b) (cs_heads s))) by (rewrite Es'; reflexivity).
    assert (Hbyh : cs_byheight s' = if is_zero32 (b_prev b) then {[ bid b := bh ]} else <[ bid b := bh ]> (cs_byheight s))
      by (rewrite Es'; reflexivity).
    assert (Hcur' : cs_cur s' = Some cur) by (rewrite Es'; reflexivity).
    clear Es' Hadd.
    pose proof (stored_new s s' b Hblocks) as Snew.
    pose proof (stored_old s s' b Hfresh Hblocks) as Sold.
    pose proof (stored_inv s s' b Hblocks) as Sinv.
    assert (Harr : forall h, aidx (l ++ [b]) h = None <-> cs_blocks s' !! h = None).
    { intros h. rewrite Hblocks, lookup_insert_None. pose proof (i_arr _ _ HI h) as Hh.
      destruct (aidx l h) as [i|] eqn:E.
      - rewrite (aidx_app_some _ _ _ _ E). split; [discriminate|]. intros [Hn _]. apply Hh in Hn. discriminate.
      - rewrite (aidx_snoc_none _ _ _ E). destruct (bytes_eqb (bid b) h) eqn:Eb.
        + apply bytes_eqb_eq in Eb. split; [discriminate | intros [_ Hn]; contradiction].
        + apply bytes_eqb_neq in Eb. split; [|reflexivity]. intros _. split; [apply Hh; reflexivity | exact Eb]. }
    assert (Hsize : size (cs_blocks s') = S (size (cs_blocks s))).
    { rewrite Hblocks. apply map_size_insert_None. exact Hfresh. }
    destruct (is_zero32 (b_prev b)) eqn:Zb.
    - (* genesis into the empty state *)
      destruct Hadm as (Hc & He & Hh0). rewrite Hc in Hcur. subst cur bh.
      assert (Hnone : forall x, ~ stored s x).
      { intros x. unfold ChainDefs.stored. rewrite He, lookup_empty. discriminate. }
      assert (Honly : forall x, stored s' x -> x = b).
      { intros x Sx. destruct (Sinv x Sx) as [-> | [Sx' _]]; [reflexivity | destruct (Hnone _ Sx')]. }
      assert (El : l = []).
      { destruct l as [|x l]; [reflexivity|]. pose proof (i_arr _ _ HI (bid x)) as Hx.
        cbn [arrival_index] in Hx. rewrite bytes_eqb_refl, He, lookup_empty in Hx.
        destruct Hx as [_ Hx]. specialize (Hx eq_refl). discriminate. }
      split.
      + exact H0'.
      + intros g g' Sg Sg' _ _. rewrite (Honly _ Sg), (Honly _ Sg'). reflexivity.
      + rewrite Hheads. apply (heads_step s s' b H0 Hfresh Hblocks).
        * apply (i_heads _ _ HI).
        * congruence.
        * intros _. exact He.
      + rewrite Hcur'. exists b. split; [reflexivity|].
        apply (head_new l s b s' H0 Hfresh Hblocks). intros x Sx. destruct (Hnone _ Sx).
      + exact Harr.
      + intros x Sx. rewrite (Honly _ Sx). exists [b]. split.
        * apply (path_new_gen s s' b Hblocks); auto.
        * rewrite Hsize. cbn [length]. lia.
      + intros x Sx. rewrite (Honly _ Sx). exists {[ 0 := b ]}. split.
        * rewrite Hbyh. apply lookup_singleton.
        * intros k a. rewrite lookup_singleton_Some, (anc_new_gen s s' b H0 Hfresh Hblocks) by exact Zb.
          split; [intros [<- <-]; auto | intros [-> <-]; auto].
    - (* a child of a stored block *)
      destruct Hadm as (p & Ep & Hh). destruct (lookup_stored _ _ _ H0 Ep) as [Sp Eid].
      destruct Hbh as (m & Em & ->).
      assert (Hne : b_prev b <> bid b) by congruence.
      destruct (i_path _ _ HI _ Sp) as (lp & Pp & Hlp).
      split.
      + exact H0'.
      + intros g g' Sg Sg' Zg Zg'.
        destruct (Sinv g Sg) as [-> | [Sg0 _]]; [congruence|].
        destruct (Sinv g' Sg') as [-> | [Sg0' _]]; [congruence|].
        eapply (i_gen _ _ HI); eauto.
      + rewrite Hheads. apply (heads_step s s' b H0 Hfresh Hblocks).
        * apply (i_heads _ _ HI).
        * intros _. exact Hne.
        * congruence.
      + rewrite Hcur'. pose proof (i_cur _ _ HI) as HC.
        destruct (cs_cur s) as [c|] eqn:Ec.
        2:{ rewrite HC, lookup_empty in Ep. discriminate. }
        destruct HC as (hb & -> & Shb & Hmax & Hfirst).
        assert (Hnew : b_height hb < b_height b -> head_spec (l ++ [b]) s' b).
        { intros Hlt. apply (head_new l s b s' H0 Hfresh Hblocks). intros x Sx. specialize (Hmax _ Sx). lia. }
        destruct Hcur as [[Ehb ->] | (Ehb & cb & Ecb & ->)].
        * exists b. split; [reflexivity|]. apply Hnew.
          assert (hb = p) as -> by (eapply stored_inj; eauto; congruence). lia.
        * assert (cb = hb) as -> by (unfold ChainDefs.stored in Shb; congruence).
          destruct (b_height hb <? b_height b) eqn:Hlt.
          { apply N.ltb_lt in Hlt. exists b. split; [reflexivity | auto]. }
          apply N.ltb_ge in Hlt. exists hb. split; [reflexivity|].
          split; [apply Sold; exact Shb|]. split.
          { intros x Sx. destruct (Sinv x Sx) as [-> | [Sx' _]]; [exact Hlt | auto]. }
          intros x Sx Hhx Hnx. destruct (Sinv x Sx) as [-> | [Sx' _]].
          { destruct (aidx l (bid hb)) as [i|] eqn:Ei.
            2:{ apply (i_arr _ _ HI) in Ei. unfold ChainDefs.stored in Shb. congruence. }
            exists i, (length l). split; [apply aidx_app_some; exact Ei|]. split; [|eapply aidx_lt; eauto].
            rewrite aidx_snoc_none by (apply (i_arr _ _ HI); exact Hfresh).
            rewrite bytes_eqb_refl. reflexivity. }
          destruct (Hfirst x Sx' Hhx Hnx) as (i & j & Ei & Ej & Hij).
          exists i, j. split; [apply aidx_app_some; exact Ei|]. split; [apply aidx_app_some; exact Ej | exact Hij].
      + exact Harr.
      + intros x Sx. rewrite Hsize. destruct (Sinv x Sx) as [-> | [Sx' _]].
        * exists (lp ++ [b]). split.
          -- apply (path_new_step s s' b H0 Hfresh Hblocks _ p); eauto.
          -- rewrite app_length. cbn [length]. lia.
        * destruct (i_path _ _ HI _ Sx') as (lx & Px & Hlx). exists lx. split.
          -- eapply path_mono; eauto.
          -- lia.
      + intros x Sx. rewrite Hbyh. destruct (Sinv x Sx) as [-> | [Sx' Hnx]].
        * destruct (i_index _ _ HI _ Sp) as (m0 & Em0 & Hm0).
          assert (m0 = m) as -> by congruence.
          exists (<[ b_height b := b ]> m). split; [apply lookup_insert|].
          intros k a. rewrite lookup_insert_Some, Hm0.
          rewrite (anc_new_step s s' b H0 Hfresh Hblocks a p) by eauto.
          split.
          -- intros [[<- <-] | (Hk & Ha & <-)]; auto.
          -- intros [[-> | Ha] <-]; [left; auto|]. right.
             pose proof (anc_height _ _ _ H0 Ha). split; [lia | auto].
        * rewrite lookup_insert_ne by congruence.
          destruct (i_index _ _ HI _ Sx') as (mx & Emx & Hmx). exists mx. split; [exact Emx|].
          intros k a. rewrite Hmx, (anc_old s s' b H0 Hfresh Hblocks) by exact Sx'. reflexivity.
  Qed.

  Lemma Inv_arrivals l s : arrivals sha l s -> Inv l s.
  Proof. induction 1; [exact Inv_empty | eapply Inv_step; eauto]. Qed.
  (* ================= main theorems ================= *)

  (* ---- (ids) ---- *)
  Theorem fc_ids l s h b : arrivals sha l s -> cs_blocks s !! h = Some b -> h = bid b.
  Proof. intros HA. apply (i_ids _ (i_inv0 _ _ (Inv_arrivals _ _ HA))). Qed.

  Theorem fc_dom_utxo l s : arrivals sha l s -> dom (cs_utxo s) = dom (cs_blocks s).
  Proof. intros HA. apply (i_utxo _ (i_inv0 _ _ (Inv_arrivals _ _ HA))). Qed.

  Theorem fc_dom_byheight l s : arrivals sha l s -> dom (cs_byheight s) = dom (cs_blocks s).
  Proof. intros HA. apply (i_bh _ (i_inv0 _ _ (Inv_arrivals _ _ HA))). Qed.

  Theorem fc_dom_heads l s : arrivals sha l s -> dom (cs_heads s) ⊆ dom (cs_blocks s).
  Proof.
    intros HA h Hh. apply elem_of_dom in Hh as [t Ht].
    apply (i_heads _ _ (Inv_arrivals _ _ HA)) in Ht as (St & <- & _). apply elem_of_dom. exists t. exact St.
  Qed.

  (* parent-closed, heights go up by one *)
  Theorem fc_parent l s b : arrivals sha l s -> stored s b -> is_zero32 (b_prev b) = false ->
    exists p, stored s p /\ b_prev b = bid p /\ b_height b = b_height p + 1.
  Proof. intros HA. apply parent_stored. apply (i_inv0 _ _ (Inv_arrivals _ _ HA)). Qed.

  (* two stored blocks with the same id are the same block (no hash injectivity needed) *)
  Theorem fc_stored_inj s a b : stored s a -> stored s b -> bid a = bid b -> a = b.
  Proof. apply stored_inj. Qed.

  (* there is one genesis block, every stored block has exactly one path, heights strictly increase along it *)
  Theorem fc_genesis_unique l s g g' : arrivals sha l s ->
    stored s g -> stored s g' -> is_zero32 (b_prev g) = true -> is_zero32 (b_prev g') = true -> g = g'.
  Proof. intros HA. apply (i_gen _ _ (Inv_arrivals _ _ HA)). Qed.

  Theorem fc_path_exists l s b : arrivals sha l s -> stored s b ->
    exists p, path s p b /\ (length p <= size (cs_blocks s))%nat.
  Proof. intros HA. apply (i_path _ _ (Inv_arrivals _ _ HA)). Qed.

  Theorem fc_path_unique l s p p' b : arrivals sha l s -> path s p b -> path s p' b -> p = p'.
  Proof. intros HA. apply path_unique. apply (i_inv0 _ _ (Inv_arrivals _ _ HA)). Qed.

  Theorem fc_path_height_strict l s p q a b : arrivals sha l s ->
    path s (p ++ [b]) b -> path s p q -> a ∈ p -> b_height a < b_height b.
  Proof. intros HA Pb Pq Ha. eapply path_height_strict; eauto. apply (i_inv0 _ _ (Inv_arrivals _ _ HA)). Qed.

  Theorem fc_anc_height l s a b : arrivals sha l s -> anc s a b -> b_height a <= b_height b.
  Proof. intros HA. apply anc_height. apply (i_inv0 _ _ (Inv_arrivals _ _ HA)). Qed.

  (* ---- (tips) ---- *)
  Theorem fc_tips_lookup_iff l s h t : arrivals sha l s ->
    cs_heads s !! h = Some t <-> stored s t /\ bid t = h /\ ~ has_child s t.
  Proof. intros HA. apply (i_heads _ _ (Inv_arrivals _ _ HA)). Qed.

  Theorem fc_tips l s : arrivals sha l s ->
    forall h, h ∈ dom (cs_heads s) <-> exists b, stored s b /\ bid b = h /\ ~ has_child s b.
  Proof.
    intros HA h. rewrite elem_of_dom. split.
    - intros [t Ht]. exists t. apply (fc_tips_lookup_iff _ _ _ _ HA). exact Ht.
    - intros (t & Ht). exists t. apply (fc_tips_lookup_iff _ _ _ _ HA). exact Ht.
  Qed.

  Theorem fc_tips_lookup l s h b : arrivals sha l s -> cs_heads s !! h = Some b -> stored s b /\ h = bid b.
  Proof. intros HA Hh. apply (fc_tips_lookup_iff _ _ _ _ HA) in Hh as (Sb & <- & _). auto. Qed.

  (* ---- (head) ---- *)
  Theorem fc_head l s : arrivals sha l s -> l <> [] ->
    exists hb, cs_cur s = Some (bid hb) /\ stored s hb /\
      (forall b, stored s b -> b_height b <= b_height hb) /\
      (forall b, stored s b -> b_height b = b_height hb -> bid b <> bid hb ->
         exists i j, aidx l (bid hb) = Some i /\ aidx l (bid b) = Some j /\ (i < j)%nat).
  Proof.
    intros HA Hl. pose proof (Inv_arrivals _ _ HA) as HI. pose proof (i_cur _ _ HI) as HC.
    destruct (cs_cur s) as [c|].
    - destruct HC as (hb & -> & Shb & Hmax & Hfirst). exists hb. auto.
    - exfalso. destruct l as [|x l]; [congruence|].
      pose proof (i_arr _ _ HI (bid x)) as Hx. cbn [arrival_index] in Hx.
      rewrite bytes_eqb_refl, HC, lookup_empty in Hx. destruct Hx as [_ Hx]. specialize (Hx eq_refl). discriminate.
  Qed.

  (* ---- (index) ---- *)
  Theorem fc_index l s b : arrivals sha l s -> stored s b ->
    exists m, cs_byheight s !! bid b = Some m /\
              forall k a, m !! k = Some a <-> (anc s a b /\ b_height a = k).
  Proof. intros HA. apply (i_index _ _ (Inv_arrivals _ _ HA)). Qed.

  (* ---- (lca) ---- *)
  Lemma path_has_genesis s l x : path s l x -> exists g, g ∈ l /\ stored s g /\ is_zero32 (b_prev g) = true.
  Proof.
    induction 1 as [g Sg Zg | l p b P IH Sb Zb Eb].
    - exists g. split; [set_solver | auto].
    - destruct IH as (g & Hg & Sg & Zg). exists g. split; [set_solver | auto].
  Qed.

  Lemma lca_walk s main hb : Inv0 s ->
    (forall k a, main !! k = Some a <-> (anc s a hb /\ b_height a = k)) ->
    (forall g, stored s g -> is_zero32 (b_prev g) = true -> anc s g hb) ->
    forall l x, path s l x -> forall fuel, (length l < fuel)%nat ->
    exists a, lca_with_main sha fuel s main x = Some a /\ a ∈ l /\ anc s a hb /\
              forall y, y ∈ l -> anc s y hb -> b_height y <= b_height a.
  Proof.
    intros H0 Hmain Hgen l x P.
    induction P as [g Sg Zg | l p b P IH Sb Zb Eb]; intros fuel Hf.
    - destruct fuel as [|f]; [cbn [length] in Hf; lia|]. cbn [lca_with_main].
      assert (Eg : main !! b_height g = Some g) by (apply Hmain; auto).
      rewrite Eg, bytes_eqb_refl. exists g. split; [reflexivity|]. split; [set_solver|]. split; [auto|].
      intros y Hy _. apply elem_of_list_singleton in Hy as ->. lia.
    - destruct fuel as [|f]; [lia|]. cbn [lca_with_main].
      rewrite app_length in Hf. cbn [length] in Hf.
      assert (Sp : stored s p) by (eapply path_stored; eauto).
      assert (Elk : cs_blocks s !! b_prev b = Some p) by (rewrite Eb; exact Sp).
      assert (Pb : path s (l ++ [b]) b) by (eapply path_step; eauto).
      assert (Hcont : ~ anc s b hb ->
                exists a, lca_with_main sha f s main p = Some a /\ a ∈ l ++ [b] /\ anc s a hb /\
                          forall y, y ∈ l ++ [b] -> anc s y hb -> b_height y <= b_height a).
      { intros Hn. destruct (IH f) as (a & Ea & Ha & Hanc & Hm); [lia|].
        exists a. split; [exact Ea|]. split; [set_solver|]. split; [exact Hanc|].
        intros y Hy Hyanc. apply elem_of_app in Hy as [Hy|Hy]; [auto|].
        apply elem_of_list_singleton in Hy as ->. contradiction. }
      rewrite Elk.
      destruct (main !! b_height b) as [mb|] eqn:Emb.
      + destruct (bytes_eqb (bid mb) (bid b)) eqn:Eq.
        * apply bytes_eqb_eq in Eq. apply Hmain in Emb as [Hmb _].
          assert (mb = b) as ->.
          { eapply stored_inj; eauto. apply (anc_stored _ _ _ Hmb). }
          exists b. split; [reflexivity|]. split; [set_solver|]. split; [exact Hmb|].
          intros y Hy _. eapply path_height; eauto.
        * apply bytes_eqb_neq in Eq. apply Hcont. intros Hb.
          assert (Eb' : main !! b_height b = Some b) by (apply Hmain; auto). congruence.
      + apply Hcont. intros Hb.
        assert (Eb' : main !! b_height b = Some b) by (apply Hmain; auto). congruence.
  Qed.

  Theorem fc_lca l s h t c main : arrivals sha l s ->
    cs_heads s !! h = Some t -> cs_cur s = Some c -> cs_byheight s !! c = Some main ->
    exists a, lca_with_main sha (S (size (cs_blocks s))) s main t = Some a /\
      anc s a t /\
      (exists hb, stored s hb /\ bid hb = c /\ anc s a hb) /\
      forall x hb, bid hb = c -> stored s hb -> anc s x t -> anc s x hb -> b_height x <= b_height a.
  Proof.
    intros HA Ht Hc Hm. pose proof (Inv_arrivals _ _ HA) as HI. pose proof (i_inv0 _ _ HI) as H0.
    apply (i_heads _ _ HI) in Ht as (St & _ & _).
    pose proof (i_cur _ _ HI) as HC. rewrite Hc in HC. destruct HC as (hb & -> & Shb & _ & _).
    destruct (i_index _ _ HI _ Shb) as (m & Em & Hmain). assert (m = main) as -> by congruence.
    destruct (i_path _ _ HI _ St) as (lt & Pt & Hlt).
    destruct (i_path _ _ HI _ Shb) as (lh & Ph & _).
    destruct (lca_walk s main hb H0 Hmain) with (l := lt) (x := t) (fuel := S (size (cs_blocks s)))
      as (a & Ea & Ha & Hanc & Hmax); [|exact Pt|lia|].
    { intros g Sg Zg. destruct (path_has_genesis _ _ _ Ph) as (g' & Hg' & Sg' & Zg').
      assert (g = g') as -> by (eapply (i_gen _ _ HI); eauto). exists lh. auto. }
    exists a. split; [exact Ea|]. split; [exists lt; auto|]. split; [exists hb; auto|].
    intros x hb' Eid Shb' (lx & Px & Hx) Hxh.
    assert (hb' = hb) as -> by (eapply stored_inj; eauto).
    assert (lx = lt) as -> by (eapply path_unique; eauto).
    auto.
  Qed.
End FC.

(* ================= non-vacuity: a genesis block and a two-way fork ================= *)
Module Example.
  (* a toy "hash": the last 32 bytes of the serialisation, i.e. the evidence's block-hash field *)
  Definition sha (bs : bytes) : bytes := skipn (length bs - 32) bs.
  Definition mk (height : N) (prev : bytes) (tag : N) : block :=
    mkBlock (mkHeader (mkSummary height prev (zeros 32) 0 (zeros 32) 0)
                      (mkEvidence (zeros 32) (zeros 32) (repeat tag 32)))
            [mkTx [] []].
  Definition g : block := mk 0 (zeros 32) 1.
  Definition c1 : block := mk 1 (repeat 1 32) 2.
  Definition c2 : block := mk 1 (repeat 1 32) 3.     (* same parent, same height: a fork *)
  Definition step (s : cstate) (b : block) : cstate := default cs_empty (add_nv sha s b).
  Definition s1 := step cs_empty g.
  Definition s2 := step s1 c1.
  Definition s3 := step s2 c2.

  Example ex_ids : block_id sha g = repeat 1 32 /\ block_id sha c1 = repeat 2 32 /\ block_id sha c2 = repeat 3 32.
  Proof. vm_compute. auto. Qed.

  (* [vm_compute] is only ever asked for small results (a boolean, one lookup): reading a whole normalised gmap
     state back is slow *)
  Lemma step_ok s b : (if add_nv sha s b then true else false) = true -> add_nv sha s b = Some (step s b).
  Proof. unfold step. destruct (add_nv sha s b); [reflexivity | discriminate]. Qed.

  Example ex_arrivals : arrivals sha [g; c1; c2] s3.
  Proof.
    apply (arr_snoc sha [g; c1] s2 c2); [apply (arr_snoc sha [g] s1 c1); [apply (arr_snoc sha [] cs_empty g)|..]|..].
    - apply arr_nil.
    - split; [reflexivity|]. vm_compute. auto.
    - apply step_ok. vm_compute. reflexivity.
    - split; [vm_compute; reflexivity|]. exists g. vm_compute. auto.
    - apply step_ok. vm_compute. reflexivity.
    - split; [vm_compute; reflexivity|]. exists g. vm_compute. auto.
    - apply step_ok. vm_compute. reflexivity.
  Qed.

  (* the fork does not switch the head: it stays at the first-arrived child; both children are tips *)
  Example ex_head : cs_cur s3 = Some (block_id sha c1).
  Proof. vm_compute. reflexivity. Qed.

  Example ex_tips : cs_heads s3 !! block_id sha c1 = Some c1 /\ cs_heads s3 !! block_id sha c2 = Some c2 /\
                    cs_heads s3 !! block_id sha g = None.
  Proof. vm_compute. auto. Qed.

  (* the general theorem instantiated on the example *)
  Example ex_fc_head : exists hb, cs_cur s3 = Some (block_id sha hb) /\ stored sha s3 hb /\
      (forall b, stored sha s3 b -> b_height b <= b_height hb).
  Proof.
    destruct (fc_head sha _ _ ex_arrivals) as (hb & H1 & H2 & H3 & _); [discriminate|]. exists hb. auto.
  Qed.
End Example.

