(* The ledger state stored at a block is a function of that block's chain alone:
   utxo_step, chain_to_path, path_unique, utxo_replay, add_monotone, order_independent. *)
From stdpp Require Import gmap.
From Coq Require Import NArith ZArith Lia.
From SkV Require Import Bytes Codec Ledger ChainState Pow Validate ChainDefs.
Open Scope N_scope.

Section Replay.
  Variable sha : bytes -> bytes.
  Notation bid := (block_id sha).

  (* ---------- inversion of add_nv ---------- *)
  Lemma add_nv_inv s b s' :
    add_nv sha s b = Some s' ->
    exists u0 u1 bh cur,
      (if is_zero32 (b_prev b) then u0 = ∅ else cs_utxo s !! b_prev b = Some u0) /\
      uto_apply_block sha u0 b = Some u1 /\
      (if is_zero32 (b_prev b) then bh = {[ 0 := b ]}
       else exists m, cs_byheight s !! b_prev b = Some m /\ bh = <[ b_height b := b ]> m) /\
      cs_blocks s' = <[ bid b := b ]> (cs_blocks s) /\
      cs_utxo s' = <[ bid b := u1 ]> (cs_utxo s) /\
      cs_byheight s' = (if is_zero32 (b_prev b) then {[ bid b := bh ]} else <[ bid b := bh ]> (cs_byheight s)) /\
      cs_heads s' = <[ bid b := b ]> (delete (b_prev b) (cs_heads s)) /\
      cs_cur s' = Some cur.
  Proof.
    unfold add_nv. cbv zeta.
    destruct (is_zero32 (b_prev b)) eqn:Ez.
    - destruct (uto_apply_block sha ∅ b) as [u1|] eqn:Eu; [|discriminate].
      match goal with |- match ?X with _ => _ end = _ -> _ => destruct X as [cur|] eqn:Ec end; [|discriminate].
      intros [= <-]. exists ∅, u1, {[ 0 := b ]}, cur. cbn. repeat split; auto.
    - destruct (cs_utxo s !! b_prev b) as [u0|] eqn:E0; [|discriminate].
      destruct (uto_apply_block sha u0 b) as [u1|] eqn:Eu; [|discriminate].
      destruct (cs_byheight s !! b_prev b) as [m|] eqn:Em; [|discriminate].
      match goal with |- match ?X with _ => _ end = _ -> _ => destruct X as [cur|] eqn:Ec end; [|discriminate].
      intros [= <-]. exists u0, u1, (<[ b_height b := b ]> m), cur. cbn. repeat split; eauto.
  Qed.

  (* ---------- the invariant ---------- *)
  Definition ustep (s : cstate) (b : block) : Prop :=
    exists u, cs_utxo s !! bid b = Some u /\
      (if is_zero32 (b_prev b) then uto_apply_block sha ∅ b = Some u
       else exists up, cs_utxo s !! b_prev b = Some up /\ uto_apply_block sha up b = Some u).

  Record Inv (l : list block) (s : cstate) : Prop := mkInv {
    inv_id : forall h b, cs_blocks s !! h = Some b -> h = bid b;
    inv_dom : dom (cs_utxo s) = dom (cs_blocks s);
    inv_parent : forall b, stored sha s b -> is_zero32 (b_prev b) = false ->
                 exists p, cs_blocks s !! b_prev b = Some p /\ b_height b = b_height p + 1;
    inv_ustep : forall b, stored sha s b -> ustep s b;
    inv_mem : forall h b, cs_blocks s !! h = Some b <-> b ∈ l /\ bid b = h;
    inv_size : forall b, stored sha s b -> (N.to_nat (b_height b) < size (cs_blocks s))%nat
  }.

  Lemma inv_empty : Inv [] cs_empty.
  Proof.
    split; unfold stored; cbn.
    - intros h b H. rewrite lookup_empty in H. discriminate.
    - rewrite !dom_empty_L. reflexivity.
    - intros b H. rewrite lookup_empty in H. discriminate.
    - intros b H. rewrite lookup_empty in H. discriminate.
    - intros h b. rewrite lookup_empty. split; [discriminate|]. intros [H _]. inversion H.
    - intros b H. rewrite lookup_empty in H. discriminate.
  Qed.

  Lemma utxo_some_blocks l s h u : Inv l s -> cs_utxo s !! h = Some u -> is_Some (cs_blocks s !! h).
  Proof.
    intros HI H. apply elem_of_dom. rewrite <- (inv_dom _ _ HI). apply elem_of_dom. eauto.
  Qed.

  Lemma inv_step l s b s' :
    Inv l s -> admissible sha s b -> add_nv sha s b = Some s' -> Inv (l ++ [b]) s'.
  Proof.
    intros HI [Hfresh Hadm] Hadd.
    destruct (add_nv_inv _ _ _ Hadd) as (u0 & u1 & bh & cur & H0 & Hu1 & Hbh & Eb & Eu & Ebh & Ehd & Ecur).
    assert (Hne : forall h, is_Some (cs_blocks s !! h) -> h <> bid b).
    { intros h [x Hx] ->. rewrite Hfresh in Hx. discriminate. }
    split; unfold stored; rewrite ?Eb, ?Eu.
    - (* ids *)
      intros h b' H. destruct (decide (h = bid b)) as [->|Hn].
      + rewrite lookup_insert in H. congruence.
      + rewrite lookup_insert_ne in H by auto. eapply inv_id; eauto.
    - rewrite !dom_insert_L. rewrite (inv_dom _ _ HI). reflexivity.
    - (* parent closure *)
      intros b' H Hz. destruct (decide (bid b' = bid b)) as [Hb|Hn].
      + rewrite Hb, lookup_insert in H. injection H as <-.
        rewrite Hz in Hadm. destruct Hadm as (p & Hp & Hh).
        exists p. split; [|exact Hh]. rewrite lookup_insert_ne; [exact Hp|].
        intros E. symmetry in E. revert E. apply Hne. eauto.
      + rewrite lookup_insert_ne in H by auto.
        destruct (inv_parent _ _ HI b' H Hz) as (p & Hp & Hh).
        exists p. split; [|exact Hh]. rewrite lookup_insert_ne; [exact Hp|].
        intros E. symmetry in E. revert E. apply Hne. eauto.
    - (* utxo step *)
      intros b' H. unfold ustep. rewrite Eu. destruct (decide (bid b' = bid b)) as [Hb|Hn].
      + rewrite Hb, lookup_insert in H. injection H as <-.
        exists u1. rewrite lookup_insert. split; [reflexivity|].
        destruct (is_zero32 (b_prev b)) eqn:Ez.
        * subst u0. exact Hu1.
        * exists u0. split; [|exact Hu1]. rewrite lookup_insert_ne; [exact H0|].
          destruct Hadm as (p & Hp & _). intros E. symmetry in E. revert E. apply Hne. eauto.
      + rewrite lookup_insert_ne in H by auto.
        destruct (inv_ustep _ _ HI b' H) as (u & Hu & Hstep).
        exists u. rewrite lookup_insert_ne by auto. split; [exact Hu|].
        destruct (is_zero32 (b_prev b')) eqn:Ez; [exact Hstep|].
        destruct Hstep as (up & Hup & Hap). exists up. split; [|exact Hap].
        rewrite lookup_insert_ne; [exact Hup|].
        intros E. symmetry in E. revert E. apply Hne. eapply utxo_some_blocks; eauto.
    - (* membership *)
      intros h b'. rewrite elem_of_app, elem_of_list_singleton.
      destruct (decide (h = bid b)) as [->|Hn].
      + rewrite lookup_insert. split.
        * intros [= <-]. auto.
        * intros [[Hin| ->] Hid]; [|reflexivity].
          assert (Hx : cs_blocks s !! bid b = Some b') by (apply (inv_mem _ _ HI); auto).
          rewrite Hfresh in Hx. discriminate.
      + rewrite lookup_insert_ne by auto. rewrite (inv_mem _ _ HI). split.
        * intros [Hin Hid]. auto.
        * intros [[Hin| ->] Hid]; [auto|]. congruence.
    - (* size *)
      intros b' H. rewrite map_size_insert_None by exact Hfresh.
      destruct (decide (bid b' = bid b)) as [Hb|Hn].
      + rewrite Hb, lookup_insert in H. injection H as <-.
        destruct (is_zero32 (b_prev b)) eqn:Ez.
        * destruct Hadm as (_ & _ & Hh). rewrite Hh. cbn. lia.
        * destruct Hadm as (p & Hp & Hh).
          assert (Hsp : stored sha s p).
          { unfold stored. rewrite <- (inv_id _ _ HI _ _ Hp). exact Hp. }
          pose proof (inv_size _ _ HI p Hsp). rewrite Hh. lia.
      + rewrite lookup_insert_ne in H by auto.
        pose proof (inv_size _ _ HI b' H). lia.
  Qed.

  Lemma arrivals_inv l s : arrivals sha l s -> Inv l s.
  Proof.
    induction 1 as [|l s b s' Harr IH Hadm Hadd]; [apply inv_empty|].
    eapply inv_step; eauto.
  Qed.

  (* ---------- 1. utxo_step ---------- *)
  Theorem utxo_step l s b :
    arrivals sha l s -> stored sha s b ->
    exists u, cs_utxo s !! block_id sha b = Some u /\
      (if is_zero32 (b_prev b) then uto_apply_block sha ∅ b = Some u
       else exists up, cs_utxo s !! b_prev b = Some up /\ uto_apply_block sha up b = Some u).
  Proof. intros Harr Hst. exact (inv_ustep _ _ (arrivals_inv _ _ Harr) b Hst). Qed.

  (* ---------- 2. chain_to / path ---------- *)
  Lemma path_stored s ch b : path sha s ch b -> stored sha s b.
  Proof. destruct 1; assumption. Qed.

  Lemma chain_rev_height l s : Inv l s ->
    forall n b, stored sha s b -> (N.to_nat (b_height b) < n)%nat ->
    exists ch, chain_rev n s (bid b) = Some ch /\ path sha s (rev ch) b.
  Proof.
    intros HI n. induction n as [|n IH]; intros b Hst Hh; [lia|].
    cbn [chain_rev]. rewrite Hst.
    destruct (is_zero32 (b_prev b)) eqn:Ez.
    - exists [b]. split; [reflexivity|]. cbn. apply path_gen; assumption.
    - destruct (inv_parent _ _ HI b Hst Ez) as (p & Hp & Hhp).
      pose proof (inv_id _ _ HI _ _ Hp) as Hid.
      assert (Hsp : stored sha s p) by (unfold stored; rewrite <- Hid; exact Hp).
      destruct (IH p Hsp) as (chp & Hc & Hpath); [lia|].
      rewrite Hid, Hc. exists (b :: chp). split; [reflexivity|].
      cbn [rev]. eapply path_step; eauto.
  Qed.

  Theorem chain_to_path l s b :
    arrivals sha l s -> stored sha s b ->
    exists ch, chain_to s (block_id sha b) = Some ch /\ path sha s ch b.
  Proof.
    intros Harr Hst. pose proof (arrivals_inv _ _ Harr) as HI.
    destruct (chain_rev_height _ _ HI (S (size (cs_blocks s))) b Hst) as (ch & Hc & Hp).
    { pose proof (inv_size _ _ HI b Hst). lia. }
    exists (rev ch). split; [|exact Hp]. unfold chain_to. rewrite Hc. reflexivity.
  Qed.

  Theorem path_unique s ch ch' b : path sha s ch b -> path sha s ch' b -> ch = ch'.
  Proof.
    intros H1. revert ch'. induction H1 as [g Hg Hz | l p b Hp IH Hb Hz Hpr]; intros ch' H2.
    - inversion H2 as [g' Hg' Hz' | l' p' b' Hp' Hb' Hz' Hpr']; subst; [reflexivity|congruence].
    - inversion H2 as [g' Hg' Hz' | l' p' b' Hp' Hb' Hz' Hpr']; subst; [congruence|].
      assert (p' = p) as ->.
      { pose proof (path_stored _ _ _ Hp) as S1. pose proof (path_stored _ _ _ Hp') as S2.
        unfold stored in S1, S2. rewrite <- Hpr, Hpr' in S1. congruence. }
      f_equal. apply IH. exact Hp'.
  Qed.

  (* ---------- 3. utxo_replay ---------- *)
  Lemma replay_utxo_app u l1 l2 :
    replay_utxo sha u (l1 ++ l2) =
    match replay_utxo sha u l1 with Some u' => replay_utxo sha u' l2 | None => None end.
  Proof.
    revert u. induction l1 as [|b l1 IH]; intros u; cbn [replay_utxo app]; [reflexivity|].
    destruct (uto_apply_block sha u b); [apply IH|reflexivity].
  Qed.

  Lemma utxo_replay_inv l s ch b : Inv l s -> path sha s ch b ->
    replay_utxo sha ∅ ch = cs_utxo s !! bid b.
  Proof.
    intros HI Hp. induction Hp as [g Hg Hz | ch p b Hp IH Hb Hz Hpr].
    - destruct (inv_ustep _ _ HI g Hg) as (u & Hu & Hs). rewrite Hz in Hs.
      cbn [replay_utxo]. rewrite Hs, Hu. reflexivity.
    - destruct (inv_ustep _ _ HI b Hb) as (u & Hu & Hs). rewrite Hz in Hs.
      destruct Hs as (up & Hup & Hap).
      rewrite replay_utxo_app, IH, <- Hpr, Hup. cbn [replay_utxo]. rewrite Hap, Hu. reflexivity.
  Qed.

  Theorem utxo_replay l s ch b :
    arrivals sha l s -> stored sha s b -> path sha s ch b ->
    replay_utxo sha ∅ ch = cs_utxo s !! block_id sha b /\ is_Some (cs_utxo s !! block_id sha b).
  Proof.
    intros Harr Hst Hp. pose proof (arrivals_inv _ _ Harr) as HI. split.
    - eapply utxo_replay_inv; eauto.
    - destruct (inv_ustep _ _ HI b Hst) as (u & Hu & _). eauto.
  Qed.

  (* ---------- 4. add_monotone ---------- *)
  Theorem add_monotone l s b s' :
    arrivals sha l s -> admissible sha s b -> add_nv sha s b = Some s' ->
    forall h, is_Some (cs_blocks s !! h) ->
      cs_blocks s' !! h = cs_blocks s !! h /\ cs_utxo s' !! h = cs_utxo s !! h /\
      cs_byheight s' !! h = cs_byheight s !! h.
  Proof.
    intros Harr [Hfresh Hadm] Hadd h [x Hx].
    destruct (add_nv_inv _ _ _ Hadd) as (u0 & u1 & bh & cur & H0 & Hu1 & Hbh & Eb & Eu & Ebh & Ehd & Ecur).
    assert (Hn : h <> bid b) by (intros ->; rewrite Hfresh in Hx; discriminate).
    rewrite Eb, Eu, Ebh. rewrite !lookup_insert_ne by auto. split; [reflexivity|]. split; [reflexivity|].
    destruct (is_zero32 (b_prev b)).
    - destruct Hadm as (_ & He & _). rewrite He, lookup_empty in Hx. discriminate.
    - rewrite lookup_insert_ne by auto. reflexivity.
  Qed.

  (* ---------- 5. order independence ---------- *)
  Lemma path_ext s1 s2 ch b : cs_blocks s1 = cs_blocks s2 -> path sha s1 ch b -> path sha s2 ch b.
  Proof.
    intros E Hp. induction Hp as [g Hg Hz | ch p b Hp IH Hb Hz Hpr].
    - apply path_gen; [|exact Hz]. unfold stored in *. rewrite <- E. exact Hg.
    - eapply path_step; eauto. unfold stored in *. rewrite <- E. exact Hb.
  Qed.

  Lemma chain_rev_ext s1 s2 n h : cs_blocks s1 = cs_blocks s2 -> chain_rev n s1 h = chain_rev n s2 h.
  Proof.
    intros E. revert h. induction n as [|n IH]; intros h; cbn [chain_rev]; [reflexivity|].
    rewrite E. destruct (cs_blocks s2 !! h) as [b|]; [|reflexivity].
    destruct (is_zero32 (b_prev b)); [reflexivity|]. rewrite IH. reflexivity.
  Qed.

  Lemma chain_to_ext s1 s2 h : cs_blocks s1 = cs_blocks s2 -> chain_to s1 h = chain_to s2 h.
  Proof. intros E. unfold chain_to. rewrite (chain_rev_ext s1 s2 _ h E), E. reflexivity. Qed.

  Theorem order_independent l1 l2 s1 s2 :
    arrivals sha l1 s1 -> arrivals sha l2 s2 -> l1 ≡ₚ l2 ->
    cs_blocks s1 = cs_blocks s2 /\ cs_utxo s1 = cs_utxo s2 /\
    (forall h, balances_at sha s1 h = balances_at sha s2 h).
  Proof.
    intros A1 A2 Hperm.
    pose proof (arrivals_inv _ _ A1) as I1. pose proof (arrivals_inv _ _ A2) as I2.
    assert (Eb : cs_blocks s1 = cs_blocks s2).
    { apply map_eq. intros h. apply option_eq. intros b.
      rewrite (inv_mem _ _ I1), (inv_mem _ _ I2), Hperm. reflexivity. }
    split; [exact Eb|]. split.
    - apply map_eq. intros h. destruct (cs_blocks s1 !! h) as [b|] eqn:Hb.
      + pose proof (inv_id _ _ I1 _ _ Hb) as ->.
        assert (S1 : stored sha s1 b) by exact Hb.
        assert (S2 : stored sha s2 b) by (unfold stored; rewrite <- Eb; exact Hb).
        destruct (chain_to_path _ _ _ A1 S1) as (ch & _ & Hp).
        rewrite <- (utxo_replay_inv _ _ _ _ I1 Hp).
        rewrite <- (utxo_replay_inv _ _ _ _ I2 (path_ext _ _ _ _ Eb Hp)). reflexivity.
      + assert (N1 : cs_utxo s1 !! h = None).
        { apply not_elem_of_dom. rewrite (inv_dom _ _ I1). apply not_elem_of_dom. exact Hb. }
        assert (N2 : cs_utxo s2 !! h = None).
        { apply not_elem_of_dom. rewrite (inv_dom _ _ I2). apply not_elem_of_dom. rewrite <- Eb. exact Hb. }
        rewrite N1, N2. reflexivity.
    - intros h. unfold balances_at. rewrite (chain_to_ext s1 s2 h Eb). reflexivity.
  Qed.
End Replay.

