(* Bridge: the definitions regenerated from /repo's source equal the hand model instantiated with the regenerated
   constants.  Robust script: survives cosmetic rewrites (>> for // 2**, reordered comparison), fails on semantic ones. *)
From Coq Require Import ZArith List Bool Lia ZifyBool.
From SkV Require Import Gen_Params Gen_Functions Subsidy.
Open Scope Z_scope.

Lemma bridge_subsidy h : 0 <= h ->
  get_block_subsidy h = subsidy SUBSIDY_HALVING_INTERVAL INITIAL_SUBSIDY h.
Proof.
  intros Hh. unfold get_block_subsidy, subsidy. cbv zeta.
  assert (Hq : 0 <= h / SUBSIDY_HALVING_INTERVAL) by (apply Z.div_pos; [lia | reflexivity]).
  rewrite ?Z.shiftr_div_pow2 by exact Hq.
  repeat match goal with |- context [if ?c then _ else _] => destruct c eqn:? end;
    try reflexivity; try lia.
Qed.

Lemma bridge_range v : validate_sashimi_range v = sashimi_in_range MAX_SASHIMI v.
Proof.
  unfold validate_sashimi_range, sashimi_in_range.
  repeat match goal with |- context [if ?c then _ else _] => destruct c eqn:? end; lia.
Qed.
