(* Finding J as a statement about the node model.  The found-block handler of the model (NodeModel.handle_mined) adds the
   found block to the CURRENT served state.  The shipped miner thread instead adds it to the snapshot of the served state
   it took at its last work request and installs the result: [handle_mined_snapshot].  When the network thread adopted
   blocks between the snapshot and the found block, those blocks vanish from the served state, and a found block of equal
   height displaces the earlier-arrived head.  With no adoption in between the two handlers agree. *)
From Coq Require Import NArith List Bool Arith.
From SkV Require Import NodeModel.
Import ListNotations.
Open Scope N_scope.

Section Stale.
  Variable tx_valid_at : N -> N -> bool.

  (* snapshot = (blocks, head) of the served state at the miner's last work request *)
  Definition handle_mined_snapshot (snap_blocks : list ablock) (snap_head : N) (s : nstate) (b : ablock) (valid : bool)
    : nstate * list out :=
    if negb valid then (s, [])
    else
      let blocks' := snap_blocks ++ [b] in
      let head' := new_head snap_blocks snap_head b in
      let s2 := set_state tx_valid_at s blocks' head' true in
      (mkNS (ns_blocks s2) (ns_head s2) (ns_valid_blocks s2) (ns_valid_head s2) (ns_pool s2) []
            (ns_rows s2 ++ ns_buffer s2 ++ [ab_id b]), [ORelayBlock (ab_id b)]).

  (* no adoption between the work request and the result: the shipped handler is the model's handler *)
  Theorem snapshot_current_agrees s b valid :
    handle_mined_snapshot (ns_blocks s) (ns_head s) s b valid = handle_mined tx_valid_at s b valid.
  Proof. reflexivity. Qed.

  (* the model's handler never loses a served block *)
  Theorem handle_mined_keeps_blocks s b valid s' o x :
    handle_mined tx_valid_at s b valid = (s', o) -> In x (ns_blocks s) -> In x (ns_blocks s').
  Proof.
    unfold handle_mined. destruct valid; cbn [negb]; intros H Hx.
    - inversion H; subst. cbn. apply in_or_app. now left.
    - inversion H; subst. exact Hx.
  Qed.
End Stale.

(* the shipped behaviour: work request on head 1 | the network thread adopts block 2 (on 1) and serves it as head | the
   winning result for the candidate 3 (on 1, same height as 2) is handled on the snapshot: block 2 is gone from the served
   state and the served head is the later-arrived block 3 *)
Theorem stale_snapshot_drops_adopted_block_refuted :
  exists (tx_valid_at : N -> N -> bool) snap_blocks snap_head s b s' o adopted,
    In adopted (ns_blocks s) /\ ns_head s = ab_id adopted /\ ab_height adopted = ab_height b /\
    handle_mined_snapshot tx_valid_at snap_blocks snap_head s b true = (s', o) /\
    ~ In adopted (ns_blocks s') /\ ns_head s' = ab_id b.
Proof.
  exists (fun _ _ => true), [mkAB 1 0 1], 1,
         (mkNS [mkAB 1 0 1; mkAB 2 1 2] 2 [mkAB 1 0 1; mkAB 2 1 2] 2 [] [] [1; 2]),
         (mkAB 3 1 2).
  eexists. eexists. exists (mkAB 2 1 2).
  split; [cbn; auto|]. split; [reflexivity|]. split; [reflexivity|].
  split; [vm_compute; reflexivity|]. split.
  - cbn. intros [H|[H|H]]; try discriminate; exact H.
  - reflexivity.
Qed.

Print Assumptions snapshot_current_agrees.
Print Assumptions handle_mined_keeps_blocks.
Print Assumptions stale_snapshot_drops_adopted_block_refuted.
