(* Specification-level definitions shared by the chain-state theorems (C01-C05): admissible arrivals, reachable
   states, ancestry.  Nothing here is executable glue; the executable model is in model/. *)
From stdpp Require Import gmap.
From Coq Require Import NArith ZArith.
From SkV Require Import Bytes Codec Ledger ChainState Pow Validate.
Open Scope N_scope.

Section Defs.
  Variable sha : bytes -> bytes.
  Notation bid := (block_id sha).

  (* an arrival the node's call sites allow: a block not yet stored; a block with the all-zero parent id only into
     the empty state (the genesis block, height 0); otherwise the parent is stored and the height is parent's + 1 *)
  Definition admissible (s : cstate) (b : block) : Prop :=
    cs_blocks s !! bid b = None /\
    (if is_zero32 (b_prev b) then cs_cur s = None /\ cs_blocks s = ∅ /\ b_height b = 0
     else exists p, cs_blocks s !! b_prev b = Some p /\ b_height b = b_height p + 1).

  (* states reached from the empty state by admissible arrivals through add_block_no_validation, together with the
     arrival list (oldest first) *)
  Inductive arrivals : list block -> cstate -> Prop :=
  | arr_nil : arrivals [] cs_empty
  | arr_snoc l s b s' : arrivals l s -> admissible s b -> add_nv sha s b = Some s' -> arrivals (l ++ [b]) s'.

  (* b is stored under its id *)
  Definition stored (s : cstate) (b : block) : Prop := cs_blocks s !! bid b = Some b.

  (* path from a genesis block to b following parent ids: oldest first, last element b *)
  Inductive path (s : cstate) : list block -> block -> Prop :=
  | path_gen g : stored s g -> is_zero32 (b_prev g) = true -> path s [g] g
  | path_step l p b : path s l p -> stored s b -> is_zero32 (b_prev b) = false -> b_prev b = bid p ->
                      path s (l ++ [b]) b.
  Definition ancestor_or_self (s : cstate) (a b : block) : Prop := exists l, path s l b /\ a ∈ l.
  Definition has_child (s : cstate) (b : block) : Prop :=
    exists c, stored s c /\ is_zero32 (b_prev c) = false /\ b_prev c = bid b.

  (* index of the first occurrence in the arrival list *)
  Fixpoint arrival_index (l : list block) (h : bytes) : option nat :=
    match l with
    | [] => None
    | b :: r => if bytes_eqb (bid b) h then Some O else option_map S (arrival_index r h)
    end.
End Defs.

Section Valid.
  Variable sha : bytes -> bytes.
  Variable scrypt : bytes -> bytes.
  Variable blake : bytes -> bytes.
  Variable verify : bytes -> bytes -> bytes -> N.
  Variable P : cparams.

  (* full-validation path *)
  Definition FV (b : block) : Prop := (p_hz P < Z.of_N (b_height b))%Z.

  (* states reached from a base state by fully validated additions (CoinState.add_block above the horizon) *)
  Inductive validated_from (s0 : cstate) : cstate -> Prop :=
  | vf_base : validated_from s0 s0
  | vf_step s b now s' : validated_from s0 s -> FV b -> cs_blocks s !! block_id sha b = None ->
                         add_block sha scrypt blake verify P s b now = Ok s' -> validated_from s0 s'.
End Valid.
