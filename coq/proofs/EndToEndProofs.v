(* Wire codec, sender and receiver composed: the protocol messages one node hands to send_message are exactly the
   (header, message) pairs the other node's MessageReceiver hands to handle_message_received, in order, for every
   interleaving of sends and socket writes and every fragmentation of the byte stream into reads.
   (networking/messages.py serialize/deserialize = model/Wire.v; remote_peer.py send_message / handle_can_send /
   MessageReceiver.receive / handle_message_data = model/Framing.v + Wire.dec_frame.) *)
From Coq Require Import NArith List Lia ZArith Bool Arith.
From SkV Require Import Bytes Wire Framing CodecProofs WireProofs FramingProofs SenderProofs.
Import ListNotations.
Open Scope N_scope.

Definition payload_of (hm : msg_header * msg) : bytes := enc_msg_header (fst hm) ++ enc_msg (snd hm).

Definition sendable_msg (max : N) (hm : msg_header * msg) : Prop :=
  wf_msg_header (fst hm) = true /\ wf_msg (snd hm) = true /\
  N.of_nat (length (payload_of hm)) <= max /\ N.of_nat (length (payload_of hm)) < 2 ^ 32.

Lemma sendable_msg_payload max hm : sendable_msg max hm -> sendable max (payload_of hm).
Proof.
  intros (Hh & Hm & H1 & H2). split; [|split; assumption].
  unfold payload_of. apply enc_frame_wf; assumption.
Qed.

Lemma dec_frame_payload max hm : sendable_msg max hm -> dec_frame (payload_of hm) = Some hm.
Proof.
  intros (Hh & Hm & _). unfold payload_of. destruct hm as [h m]. cbn [fst snd] in *.
  rewrite <- (app_nil_r (enc_msg m)). apply dec_frame_roundtrip; assumption.
Qed.

Lemma map_dec_frame max hms : Forall (sendable_msg max) hms -> map dec_frame (map payload_of hms) = map Some hms.
Proof.
  induction 1 as [|hm hms H _ IH]; [reflexivity|]. cbn [map]. rewrite (dec_frame_payload max hm H), IH. reflexivity.
Qed.

Section EndToEnd.
  Variable max : N.

  Theorem messages_end_to_end hms chunks : Forall (sendable_msg max) hms -> Forall bytes_wf chunks ->
    concat chunks = send_stream (map payload_of hms) ->
    map dec_frame (fst (fst (feed max r_init chunks))) = map Some hms /\
    snd (fst (feed max r_init chunks)) = None /\
    pending (snd (feed max r_init chunks)) = [].
  Proof.
    intros Hs Hc E.
    assert (Hp : Forall (sendable max) (map payload_of hms)).
    { apply Forall_forall. intros p Hin. apply in_map_iff in Hin. destruct Hin as (hm & <- & Hin).
      apply sendable_msg_payload. rewrite Forall_forall in Hs. apply Hs, Hin. }
    destruct (send_receive max _ chunks Hp Hc E) as (F1 & F2 & F3).
    rewrite F1. split; [apply (map_dec_frame max), Hs|split; assumption].
  Qed.

  (* with the sender's state machine in between, observed at any moment: a prefix, decoded correctly, nothing refused *)
  Theorem messages_end_to_end_prefix ops hms chunks : sent_of ops = map payload_of hms ->
    Forall (sendable_msg max) hms -> Forall bytes_wf chunks -> concat chunks = s_written (s_run ops) ->
    snd (fst (feed max r_init chunks)) = None /\
    exists k, map dec_frame (fst (fst (feed max r_init chunks))) = map Some (firstn k hms).
  Proof.
    intros Eo Hs Hc E.
    assert (Hp : Forall (sendable max) (sent_of ops)).
    { rewrite Eo. apply Forall_forall. intros p Hin. apply in_map_iff in Hin. destruct Hin as (hm & <- & Hin).
      apply sendable_msg_payload. rewrite Forall_forall in Hs. apply Hs, Hin. }
    destruct (sender_receiver_prefix max ops chunks Hp Hc E) as (F1 & more & F2).
    split; [exact F1|]. rewrite Eo in F2.
    set (got := fst (fst (feed max r_init chunks))) in *.
    exists (length got).
    assert (Hg : got = map payload_of (firstn (length got) hms)).
    { rewrite <- firstn_map, <- F2, firstn_app, Nat.sub_diag, firstn_all. cbn [firstn]. rewrite app_nil_r. reflexivity. }
    rewrite Hg at 1. apply (map_dec_frame max).
    apply Forall_forall. intros x Hx. rewrite Forall_forall in Hs. apply Hs.
    rewrite <- (firstn_skipn (length got) hms). apply in_or_app. left. exact Hx.
  Qed.
End EndToEnd.

(* the premises are satisfiable: two real messages under the real 32 MiB limit *)
Example sendable_msgs_exist :
  let hms := [(mkMH 1700000000 1 0 77, MGetPeers); (mkMH 1700000001 2 1 77, MInventory [([0;0], zeros 32)])] in
  forallb (fun hm => wf_msg_header (fst hm) && wf_msg (snd hm) &&
                     (N.of_nat (length (payload_of hm)) <=? 33554432)) hms = true.
Proof. vm_compute. reflexivity. Qed.
