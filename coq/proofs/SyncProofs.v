(* Proofs about model/Sync.v: the block locator (recent_heights) and the GetBlocks server side (serve).
   Stdlib style only. *)
From Coq Require Import NArith ZArith List Bool Arith Lia Sorted.
From Coq Require Import ZifyBool ZifyN ZifyNat.
From SkV Require Import Sync.
Import ListNotations.
Open Scope N_scope.
Ltac Zify.zify_post_hook ::= Z.to_euclidean_division_equations.

(* ================================================================== *)
(* Part 1 : the locator                                                *)
(* ================================================================== *)

Lemma in_oldness_small k : k < 10 -> In k oldness.
Proof.
  intros H. unfold oldness. apply in_or_app. left. apply in_map_iff.
  exists (N.to_nat k). split; [lia|]. apply in_seq. lia.
Qed.

Lemma in_oldness_square k : 4 <= k < 64 -> In (k * k) oldness.
Proof.
  intros H. unfold oldness. apply in_or_app. right. apply in_map_iff.
  exists (N.to_nat k). split; [rewrite N2Nat.id; reflexivity|]. apply in_seq. lia.
Qed.

(* converse: oldness contains nothing else *)
Lemma in_oldness_inv o : In o oldness -> o < 10 \/ exists k, 4 <= k < 64 /\ o = k * k.
Proof.
  unfold oldness. intros H. apply in_app_or in H. destruct H as [H|H]; apply in_map_iff in H;
    destruct H as (n & <- & Hn); apply in_seq in Hn.
  - left. lia.
  - right. exists (N.of_nat n). split; [lia|reflexivity].
Qed.

Lemma recent_heights_in x h :
  In x (recent_heights h) <-> exists o, In o oldness /\ o <= h /\ x = h - o.
Proof.
  unfold recent_heights. rewrite in_map_iff. split.
  - intros (o & Ho & Hin). apply filter_In in Hin. destruct Hin as [Hin Hle].
    apply N.leb_le in Hle. exists o. repeat split; auto.
  - intros (o & Hin & Hle & ->). exists o. split; auto. apply filter_In. split; auto.
    apply N.leb_le; exact Hle.
Qed.

Theorem recent_heights_le x h : In x (recent_heights h) -> x <= h.
Proof. intros H. apply recent_heights_in in H. destruct H as (o & _ & Hle & ->). lia. Qed.

Theorem recent_heights_pred h k : k < 10 -> k <= h -> In (h - k) (recent_heights h).
Proof. intros Hk Hle. apply recent_heights_in. exists k. auto using in_oldness_small. Qed.

Theorem recent_heights_head h : In h (recent_heights h).
Proof.
  replace h with (h - 0) at 1 by lia. apply recent_heights_pred; lia.
Qed.

Theorem recent_heights_squares h k : 4 <= k < 64 -> k * k <= h -> In (h - k * k) (recent_heights h).
Proof. intros Hk Hle. apply recent_heights_in. exists (k * k). auto using in_oldness_square. Qed.

(* exact description of the announced heights *)
Theorem recent_heights_exact x h :
  In x (recent_heights h) <->
  (exists k, k < 10 /\ k <= h /\ x = h - k) \/ (exists k, 4 <= k < 64 /\ k * k <= h /\ x = h - k * k).
Proof.
  split.
  - intros H. apply recent_heights_in in H. destruct H as (o & Hin & Hle & ->).
    apply in_oldness_inv in Hin. destruct Hin as [Ho|(k & Hk & ->)].
    + left. exists o. auto.
    + right. exists k. auto.
  - intros [(k & Hk & Hle & ->)|(k & Hk & Hle & ->)].
    + apply recent_heights_pred; auto.
    + apply recent_heights_squares; auto.
Qed.

(* boolean check of strict sortedness *)
Fixpoint ssortedb (l : list N) : bool :=
  match l with
  | [] => true
  | a :: r => forallb (fun b => a <? b) r && ssortedb r
  end.

Lemma ssortedb_sound l : ssortedb l = true -> StronglySorted N.lt l.
Proof.
  induction l as [|a r IH]; cbn [ssortedb]; intros H.
  - constructor.
  - apply andb_true_iff in H. destruct H as [Ha Hr]. constructor; auto.
    apply Forall_forall. intros b Hb. rewrite forallb_forall in Ha. apply Ha in Hb.
    apply N.ltb_lt; exact Hb.
Qed.

Lemma oldness_sorted : StronglySorted N.lt oldness.
Proof. apply ssortedb_sound. vm_compute. reflexivity. Qed.

Lemma StronglySorted_filter_N (R : N -> N -> Prop) (f : N -> bool) l :
  StronglySorted R l -> StronglySorted R (filter f l).
Proof.
  induction 1 as [|a r Hr IH Ha]; cbn [filter]; [constructor|].
  destruct (f a); auto. constructor; auto.
  apply Forall_forall. intros b Hb. apply filter_In in Hb. destruct Hb as [Hb _].
  rewrite Forall_forall in Ha. auto.
Qed.

Lemma StronglySorted_map_sub h l :
  StronglySorted N.lt l -> Forall (fun o => o <= h) l ->
  StronglySorted (fun a b => b < a) (map (fun o => h - o) l).
Proof.
  induction 1 as [|a r Hr IH Ha]; intros Hle; cbn [map]; [constructor|].
  inversion Hle as [|? ? Hah Hrh]; subst. constructor; auto.
  apply Forall_forall. intros b Hb. apply in_map_iff in Hb. destruct Hb as (o & <- & Ho).
  rewrite Forall_forall in Ha, Hrh. specialize (Ha o Ho). specialize (Hrh o Ho). lia.
Qed.

Theorem recent_heights_sorted h : StronglySorted (fun a b => b < a) (recent_heights h).
Proof.
  unfold recent_heights. apply StronglySorted_map_sub.
  - apply StronglySorted_filter_N. exact oldness_sorted.
  - apply Forall_forall. intros o Ho. apply filter_In in Ho. destruct Ho as [_ Ho].
    apply N.leb_le; exact Ho.
Qed.

Corollary recent_heights_NoDup h : NoDup (recent_heights h).
Proof.
  generalize (recent_heights_sorted h). induction 1 as [|a r Hr IH Ha]; constructor; auto.
  intros Hin. rewrite Forall_forall in Ha. specialize (Ha a Hin). lia.
Qed.

Lemma filter_length_le_N (f : N -> bool) l : (length (filter f l) <= length l)%nat.
Proof. induction l as [|a r IH]; cbn [filter length]; [lia|]. destruct (f a); cbn [length]; lia. Qed.

Theorem recent_heights_length h : (length (recent_heights h) <= 70)%nat.
Proof.
  unfold recent_heights. rewrite map_length.
  etransitivity; [apply filter_length_le_N|]. vm_compute. reflexivity.
Qed.

Theorem recent_heights_0 : recent_heights 0 = [0].
Proof. vm_compute. reflexivity. Qed.

(* when the chain is long enough nothing is dropped *)
Theorem recent_heights_length_full h : 3969 <= h -> length (recent_heights h) = 70%nat.
Proof.
  intros Hh. unfold recent_heights. rewrite map_length.
  assert (Hall : forall l, Forall (fun o => o <= 3969) l -> filter (fun o => o <=? h) l = l).
  { induction l as [|a r IH]; intros HF; cbn [filter]; [reflexivity|].
    inversion HF as [|? ? Ha Hr]; subst. replace (a <=? h) with true by lia. f_equal; auto. }
  rewrite Hall; [vm_compute; reflexivity|].
  apply Forall_forall. intros o Ho. apply in_oldness_inv in Ho. destruct Ho as [Ho|(k & Hk & ->)]; nia.
Qed.

(* ================================================================== *)
(* Part 2 : the server                                                 *)
(* ================================================================== *)

(* generic list facts *)
Lemma skipn_nth_error_cons {A} (l : list A) n x :
  nth_error l n = Some x -> skipn n l = x :: skipn (S n) l.
Proof.
  revert l. induction n as [|n IH]; intros [|a l] H; cbn in H; try discriminate.
  - injection H as ->. reflexivity.
  - cbn [skipn]. rewrite (IH l H). reflexivity.
Qed.

Lemma firstn_length_firstn {A} n (l : list A) : firstn (length (firstn n l)) l = firstn n l.
Proof.
  revert l. induction n as [|n IH]; intros [|a l]; cbn; try reflexivity. f_equal. apply IH.
Qed.

Lemma nth_error_firstn_lt {A} n k (l : list A) : (k < n)%nat -> nth_error (firstn n l) k = nth_error l k.
Proof.
  revert k l. induction n as [|n IH]; intros k l H; [lia|].
  destruct l as [|a l]; [reflexivity|]. destruct k as [|k]; cbn; [reflexivity|]. apply IH. lia.
Qed.

Lemma nth_error_skipn_add {A} s k (l : list A) : nth_error (skipn s l) k = nth_error l (s + k).
Proof.
  revert l. induction s as [|s IH]; intros l; [reflexivity|].
  destruct l as [|a l]; cbn [skipn Nat.add nth_error]; [destruct k; reflexivity|]. apply IH.
Qed.

Lemma last_nth_error {A} (l : list A) d : l <> [] -> nth_error l (length l - 1) = Some (last l d).
Proof.
  induction l as [|a r IH]; intros H; [congruence|].
  destruct r as [|b r]; [reflexivity|].
  change (last (a :: b :: r) d) with (last (b :: r) d).
  rewrite <- IH by discriminate. cbn [length]. replace (S (S (length r)) - 1)%nat with (S (S (length r) - 1)) by lia.
  reflexivity.
Qed.

Section ServeProofs.
  Variable main : list N.
  Variable height_of : N -> option N.

  Notation head_height := (head_height main).
  Notation main_at := (main_at main).
  Notation scan := (scan main height_of).
  Notation range_ids := (range_ids main).

  (* --- classification of one announced id (no hypotheses needed) --- *)

  (* skipped by the loop: unknown, or known, successor height within the chain, but not the active block at its height *)
  Definition skippable (s : N) : Prop :=
    height_of s = None \/
    exists hs, height_of s = Some hs /\ main_at (hs + 1) <> None /\ main_at hs <> Some s.
  (* break with start = hs + 1 *)
  Definition hit (s hs : N) : Prop :=
    height_of s = Some hs /\ main_at hs = Some s /\ main_at (hs + 1) <> None.
  (* "no new info" *)
  Definition silent (s : N) : Prop :=
    exists hs, height_of s = Some hs /\ main_at (hs + 1) = None.

  Lemma scan_cons_skip s r : skippable s -> scan (s :: r) = scan r.
  Proof.
    intros [Hn|(hs & Hh & Hs & Hm)]; cbn [Sync.scan]; rewrite ?Hn, ?Hh; [reflexivity|].
    destruct (main_at (hs + 1)) eqn:E1; [|congruence].
    destruct (main_at hs) as [m|] eqn:E2; [|reflexivity].
    destruct (m =? s) eqn:E3; [|reflexivity]. apply N.eqb_eq in E3. congruence.
  Qed.

  Lemma scan_cons_hit s r hs : hit s hs -> scan (s :: r) = Some (Some (hs + 1)).
  Proof.
    intros (Hh & Hm & Hs). cbn [Sync.scan]. rewrite Hh.
    destruct (main_at (hs + 1)) eqn:E1; [|congruence]. rewrite Hm, N.eqb_refl. reflexivity.
  Qed.

  Lemma scan_cons_silent s r : silent s -> scan (s :: r) = Some None.
  Proof. intros (hs & Hh & Hs). cbn [Sync.scan]. rewrite Hh, Hs. reflexivity. Qed.

  Lemma classify s : skippable s \/ (exists hs, hit s hs) \/ silent s.
  Proof.
    destruct (height_of s) as [hs|] eqn:Hh; [|left; left; exact Hh].
    destruct (main_at (hs + 1)) as [x|] eqn:E1.
    - destruct (main_at hs) as [m|] eqn:E2.
      + destruct (N.eq_dec m s) as [->|Hne].
        * right; left. exists hs. repeat split; auto. congruence.
        * left; right. exists hs. repeat split; auto; congruence.
      + left; right. exists hs. repeat split; auto; congruence.
    - right; right. exists hs. auto.
  Qed.

  Lemma skippable_not_hit s hs : skippable s -> ~ hit s hs.
  Proof. intros [Hn|(h' & Hh & Hs & Hm)] (Hh' & Hm' & Hs'); congruence. Qed.
  Lemma skippable_not_silent s : skippable s -> ~ silent s.
  Proof. intros [Hn|(h' & Hh & Hs & Hm)] (hs & Hh' & Hs'); congruence. Qed.
  Lemma hit_not_silent s hs : hit s hs -> ~ silent s.
  Proof. intros (Hh & Hm & Hs) (h' & Hh' & Hs'). congruence. Qed.

  Lemma scan_app_skip prefix rest : Forall skippable prefix -> scan (prefix ++ rest) = scan rest.
  Proof.
    induction 1 as [|a p Ha Hp IH]; [reflexivity|].
    rewrite <- app_comm_cons, scan_cons_skip; auto.
  Qed.

  Lemma scan_decompose starts :
    (Forall skippable starts /\ scan starts = None) \/
    (exists prefix s suffix, starts = prefix ++ s :: suffix /\ Forall skippable prefix /\
       ((exists hs, hit s hs /\ scan starts = Some (Some (hs + 1))) \/
        (silent s /\ scan starts = Some None))).
  Proof.
    induction starts as [|a r IH].
    - left. split; [constructor|reflexivity].
    - destruct (classify a) as [Hs|[(hs & Hh)|Hs]].
      + rewrite (scan_cons_skip a r Hs).
        destruct IH as [[HF Hn]|(p & s & suf & -> & HF & Hcase)].
        * left. split; auto.
        * right. exists (a :: p), s, suf. split; [reflexivity|]. split; [constructor; auto|].
          exact Hcase.
      + right. exists [], a, r. split; [reflexivity|]. split; [constructor|].
        left. exists hs. split; auto. apply scan_cons_hit; auto.
      + right. exists [], a, r. split; [reflexivity|]. split; [constructor|].
        right. split; auto. apply scan_cons_silent; auto.
  Qed.

  (* --- serve_first_match : exact characterisation of scan (three cases) --- *)

  Theorem scan_hit_iff starts st :
    scan starts = Some (Some st) <->
    exists prefix s suffix hs, starts = prefix ++ s :: suffix /\ Forall skippable prefix /\
       height_of s = Some hs /\ main_at hs = Some s /\ main_at (hs + 1) <> None /\ st = hs + 1.
  Proof.
    split.
    - intros H. destruct (scan_decompose starts) as [[_ Hn]|(p & s & suf & Heq & HF & [(hs & Hh & Hsc)|[_ Hsc]])];
        try congruence.
      exists p, s, suf, hs. destruct Hh as (H1 & H2 & H3). repeat split; auto. congruence.
    - intros (p & s & suf & hs & -> & HF & H1 & H2 & H3 & ->).
      rewrite scan_app_skip by auto. apply scan_cons_hit. repeat split; auto.
  Qed.

  Theorem scan_silent_iff starts :
    scan starts = Some None <->
    exists prefix s suffix hs, starts = prefix ++ s :: suffix /\ Forall skippable prefix /\
       height_of s = Some hs /\ main_at (hs + 1) = None.
  Proof.
    split.
    - intros H. destruct (scan_decompose starts) as [[_ Hn]|(p & s & suf & Heq & HF & [(hs & Hh & Hsc)|[Hs Hsc]])];
        try congruence.
      destruct Hs as (hs & H1 & H2). exists p, s, suf, hs. auto.
    - intros (p & s & suf & hs & -> & HF & H1 & H2).
      rewrite scan_app_skip by auto. apply scan_cons_silent. exists hs. auto.
  Qed.

  Theorem scan_none_iff starts : scan starts = None <-> Forall skippable starts.
  Proof.
    split.
    - intros H. destruct (scan_decompose starts) as [[HF _]|(p & s & suf & Heq & HF & [(hs & Hh & Hsc)|[Hs Hsc]])];
        auto; congruence.
    - intros HF. rewrite <- (app_nil_r starts). rewrite scan_app_skip by auto. reflexivity.
  Qed.

  (* the form requested in the task (st - 1 instead of an explicit hs) *)
  Theorem serve_first_match starts st :
    scan starts = Some (Some st) <->
    exists prefix s suffix, starts = prefix ++ s :: suffix /\ Forall skippable prefix /\
       1 <= st /\ height_of s = Some (st - 1) /\ main_at (st - 1) = Some s /\ main_at st <> None.
  Proof.
    rewrite scan_hit_iff. split.
    - intros (p & s & suf & hs & Heq & HF & H1 & H2 & H3 & ->).
      exists p, s, suf. replace (hs + 1 - 1) with hs by lia. repeat split; auto. lia.
    - intros (p & s & suf & Heq & HF & Hst & H1 & H2 & H3).
      exists p, s, suf, (st - 1). replace (st - 1 + 1) with st by lia. repeat split; auto.
  Qed.

  (* the start height the server uses *)
  Definition start_of (starts : list N) : N :=
    match scan starts with Some (Some st) => st | _ => 1 end.

  Lemma start_of_cases starts :
    start_of starts = 1 \/
    exists s hs, In s starts /\ height_of s = Some hs /\ main_at hs = Some s /\
                 main_at (hs + 1) <> None /\ start_of starts = hs + 1.
  Proof.
    unfold start_of. destruct (scan starts) as [[st|]|] eqn:E; auto.
    apply scan_hit_iff in E. destruct E as (p & s & suf & hs & -> & HF & H1 & H2 & H3 & ->).
    right. exists s, hs. repeat split; auto. apply in_or_app. right. left. reflexivity.
  Qed.

  (* --- facts that need main <> [] --- *)
  Hypothesis Hne : main <> [].

  Lemma length_main_pos : (1 <= length main)%nat.
  Proof. destruct main; [congruence|cbn; lia]. Qed.

  Lemma head_height_succ : head_height + 1 = N.of_nat (length main).
  Proof. unfold Sync.head_height. pose proof length_main_pos. lia. Qed.

  Lemma main_at_some_iff h : main_at h <> None <-> h <= head_height.
  Proof.
    unfold Sync.main_at. rewrite nth_error_Some. pose proof head_height_succ. lia.
  Qed.

  Lemma main_at_none_iff h : main_at h = None <-> head_height < h.
  Proof.
    unfold Sync.main_at. rewrite nth_error_None. pose proof head_height_succ. lia.
  Qed.

  Lemma range_ids_spec fuel from upto :
    upto <= N.of_nat (length main) ->
    range_ids fuel from upto =
      firstn (Nat.min fuel (N.to_nat (upto - from))) (skipn (N.to_nat from) main).
  Proof.
    intros Hup. revert from. induction fuel as [|f IH]; intros from; [reflexivity|].
    cbn [Sync.range_ids]. destruct (from <? upto) eqn:E.
    - destruct (main_at from) as [i|] eqn:Em.
      + unfold Sync.main_at in Em. rewrite (skipn_nth_error_cons _ _ _ Em).
        replace (Nat.min (S f) (N.to_nat (upto - from))) with (S (Nat.min f (N.to_nat (upto - (from + 1))))) by lia.
        cbn [firstn]. f_equal. rewrite IH. replace (N.to_nat (from + 1)) with (S (N.to_nat from)) by lia.
        reflexivity.
      + exfalso. unfold Sync.main_at in Em. apply nth_error_None in Em. lia.
    - replace (Nat.min (S f) (N.to_nat (upto - from))) with 0%nat by lia. reflexivity.
  Qed.

  (* --- consistency of height_of with main --- *)
  Hypothesis Hcons : forall i h, nth_error main (N.to_nat h) = Some i -> height_of i = Some h.

  Lemma main_at_height h i : main_at h = Some i -> height_of i = Some h.
  Proof. apply Hcons. Qed.

  Lemma on_main_iff s hs : height_of s = Some hs -> (main_at hs = Some s <-> In s main).
  Proof.
    intros Hh. split.
    - intros H. eapply nth_error_In; exact H.
    - intros H. apply In_nth_error in H. destruct H as [n Hn].
      assert (Hh' : height_of s = Some (N.of_nat n)) by (apply Hcons; rewrite Nat2N.id; exact Hn).
      assert (hs = N.of_nat n) by congruence. subst hs. unfold Sync.main_at. rewrite Nat2N.id. exact Hn.
  Qed.

  (* the NoDup hypothesis of the task is implied by the consistency hypothesis *)
  Lemma cons_NoDup : NoDup main.
  Proof.
    apply NoDup_nth_error. intros i j Hi Hij.
    destruct (nth_error main i) as [x|] eqn:Ei; [|apply nth_error_None in Ei; lia].
    symmetry in Hij.
    assert (H1 : height_of x = Some (N.of_nat i)) by (apply Hcons; rewrite Nat2N.id; exact Ei).
    assert (H2 : height_of x = Some (N.of_nat j)) by (apply Hcons; rewrite Nat2N.id; exact Hij).
    assert (N.of_nat i = N.of_nat j) by congruence. lia.
  Qed.

  (* the three classes in terms of "is on the active chain" *)
  Lemma skippable_iff s :
    skippable s <->
    height_of s = None \/ exists hs, height_of s = Some hs /\ hs < head_height /\ ~ In s main.
  Proof.
    unfold skippable. split; (intros [H|(hs & Hh & H1 & H2)]; [left; exact H|right; exists hs]).
    - rewrite main_at_some_iff in H1. rewrite (on_main_iff s hs Hh) in H2. repeat split; auto. lia.
    - rewrite main_at_some_iff. rewrite (on_main_iff s hs Hh). repeat split; auto. lia.
  Qed.

  Lemma hit_iff s hs : hit s hs <-> height_of s = Some hs /\ In s main /\ hs < head_height.
  Proof.
    unfold hit. split; intros (Hh & H1 & H2).
    - rewrite main_at_some_iff in H2. rewrite (on_main_iff s hs Hh) in H1. repeat split; auto. lia.
    - rewrite main_at_some_iff. rewrite (on_main_iff s hs Hh). repeat split; auto. lia.
  Qed.

  Lemma silent_iff s : silent s <-> exists hs, height_of s = Some hs /\ head_height <= hs.
  Proof.
    unfold silent. split; intros (hs & Hh & H1); exists hs; split; auto.
    - apply main_at_none_iff in H1. lia.
    - apply main_at_none_iff. lia.
  Qed.

  (* --- the reply --- *)
  Variable batch : N.
  Notation serve := (serve batch main height_of).

  Definition reply_len (start : N) : nat :=
    Nat.min (N.to_nat batch) (N.to_nat (head_height + 1 - start)).

  Lemma range_serve start :
    range_ids (N.to_nat batch) start (N.min (start + batch) (head_height + 1)) =
    firstn (reply_len start) (skipn (N.to_nat start) main).
  Proof. clear Hcons.
    rewrite range_ids_spec by (pose proof head_height_succ; lia).
    unfold reply_len. f_equal. lia.
  Qed.

  (* exact description of the reply *)
  Theorem serve_spec starts :
    serve starts =
      match scan starts with
      | Some None => []
      | _ => firstn (reply_len (start_of starts)) (skipn (N.to_nat (start_of starts)) main)
      end.
  Proof. clear Hcons.
    unfold Sync.serve, start_of. destruct (scan starts) as [[st|]|]; auto using range_serve.
  Qed.

  Theorem serve_length starts :
    scan starts <> Some None -> length (serve starts) = reply_len (start_of starts).
  Proof. clear Hcons.
    intros H. rewrite serve_spec. destruct (scan starts) as [[st|]|] eqn:E; try congruence;
      rewrite firstn_length, skipn_length; unfold reply_len; pose proof head_height_succ; lia.
  Qed.

  Theorem serve_nth starts k :
    scan starts <> Some None -> (k < length (serve starts))%nat ->
    nth_error (serve starts) k = main_at (start_of starts + N.of_nat k).
  Proof. clear Hcons.
    intros H Hk. rewrite serve_length in Hk by auto. rewrite serve_spec.
    assert (Hgoal : nth_error (firstn (reply_len (start_of starts)) (skipn (N.to_nat (start_of starts)) main)) k
                    = main_at (start_of starts + N.of_nat k)).
    { rewrite nth_error_firstn_lt by auto. rewrite nth_error_skipn_add. unfold Sync.main_at.
      f_equal. lia. }
    destruct (scan starts) as [[st|]|]; auto; congruence.
  Qed.

  (* --- serve_consecutive --- *)
  Theorem serve_consecutive starts ids :
    serve starts = ids ->
    exists start,
      (start = 1 \/ exists s hs, In s starts /\ height_of s = Some hs /\ main_at hs = Some s /\ start = hs + 1) /\
      ids = firstn (length ids) (skipn (N.to_nat start) main) /\
      (length ids <= N.to_nat batch)%nat.
  Proof. clear Hcons.
    intros <-. exists (start_of starts). split.
    - destruct (start_of_cases starts) as [H|(s & hs & H1 & H2 & H3 & _ & H5)]; auto.
      right. exists s, hs. auto.
    - rewrite serve_spec. destruct (scan starts) as [[st|]|]; try (split; [reflexivity|cbn; lia]);
        (split; [symmetry; apply firstn_length_firstn|]);
        (etransitivity; [apply firstn_le_length|unfold reply_len; lia]).
  Qed.

  (* 0 < batch: the reply is empty exactly when scan says "no new info" (or the server only has genesis) *)
  Theorem serve_empty_iff starts :
    0 < batch ->
    (serve starts = [] <-> scan starts = Some None \/ (scan starts = None /\ head_height = 0)).
  Proof. clear Hcons.
    intros Hb. split.
    - intros He. destruct (scan starts) as [[st|]|] eqn:E.
      + exfalso.
        assert (Hl : length (serve starts) = reply_len (start_of starts)) by (apply serve_length; congruence).
        rewrite He in Hl. unfold start_of in Hl. rewrite E in Hl. apply scan_hit_iff in E.
        destruct E as (p & s & suf & hs & _ & _ & _ & _ & H3 & ->). apply main_at_some_iff in H3.
        unfold reply_len in Hl. cbn [length] in Hl. lia.
      + left; reflexivity.
      + right. split; [reflexivity|].
        assert (Hl : length (serve starts) = reply_len (start_of starts)) by (apply serve_length; congruence).
        rewrite He in Hl. unfold start_of in Hl. rewrite E in Hl.
        unfold reply_len in Hl. cbn [length] in Hl. lia.
    - intros [E|[E H0]]; rewrite serve_spec, E; [reflexivity|].
      unfold reply_len. rewrite H0. unfold start_of. rewrite E.
      replace (Nat.min (N.to_nat batch) (N.to_nat (0 + 1 - 1))) with 0%nat by lia. reflexivity.
  Qed.

  (* --- serve_parent_known --- *)
  Lemma serve_nonempty_scan starts : serve starts <> [] -> scan starts <> Some None.
  Proof. clear Hcons. intros H E. apply H. rewrite serve_spec, E. reflexivity. Qed.

  Theorem serve_parent_known starts first rest :
    serve starts = first :: rest ->
    let start := start_of starts in
    1 <= start /\ main_at start = Some first /\
    (start = 1 \/
     exists p, In p starts /\ height_of p = Some (start - 1) /\ main_at (start - 1) = Some p).
  Proof. clear Hcons.
    intros Hs start.
    assert (Hsc : scan starts <> Some None) by (apply serve_nonempty_scan; rewrite Hs; discriminate).
    assert (H0 : nth_error (serve starts) 0 = main_at (start_of starts + N.of_nat 0))
      by (apply serve_nth; auto; rewrite Hs; cbn; lia).
    rewrite Hs in H0. cbn [nth_error] in H0. replace (start_of starts + N.of_nat 0) with start in H0 by (subst start; lia).
    destruct (start_of_cases starts) as [H1|(s & hs & Hin & Hh & Hm & _ & Heq)]; fold start in H1 || fold start in Heq.
    - repeat split; auto; lia.
    - repeat split; auto; [lia|]. right. exists s. rewrite Heq. replace (hs + 1 - 1) with hs by lia. auto.
  Qed.

  (* every later id of the reply is the active-chain successor of the previous id of the reply *)
  Theorem serve_chain_links starts k i :
    nth_error (serve starts) (S k) = Some i ->
    exists p, nth_error (serve starts) k = Some p /\
              main_at (start_of starts + N.of_nat k) = Some p /\
              main_at (start_of starts + N.of_nat k + 1) = Some i.
  Proof. clear Hcons.
    intros Hi.
    assert (Hlen : (S k < length (serve starts))%nat) by (apply nth_error_Some; congruence).
    assert (Hsc : scan starts <> Some None).
    { apply serve_nonempty_scan. intros E. rewrite E in Hlen. cbn in Hlen. lia. }
    pose proof (serve_nth starts (S k) Hsc Hlen) as HS.
    assert (Hk : (k < length (serve starts))%nat) by lia.
    pose proof (serve_nth starts k Hsc Hk) as HK.
    destruct (nth_error (serve starts) k) as [p|] eqn:Ep; [|apply nth_error_None in Ep; lia].
    exists p. repeat split; auto.
    rewrite Hi in HS. rewrite HS. f_equal. lia.
  Qed.

  (* --- last id of a non-empty reply --- *)
  Lemma serve_last starts st :
    0 < batch -> scan starts = Some (Some st) ->
    serve starts <> [] /\
    main_at (N.min (st + batch - 1) head_height) = Some (last (serve starts) 0) /\
    st <= N.min (st + batch - 1) head_height.
  Proof. clear Hcons.
    intros Hb E.
    assert (Hsc : scan starts <> Some None) by congruence.
    pose proof (serve_length starts Hsc) as Hl.
    assert (Hst : start_of starts = st) by (unfold start_of; rewrite E; reflexivity).
    rewrite Hst in Hl.
    assert (Hle : st <= head_height).
    { apply scan_hit_iff in E. destruct E as (p & s & suf & hs & _ & _ & _ & _ & H3 & ->).
      apply main_at_some_iff in H3. exact H3. }
    unfold reply_len in Hl.
    assert (Hne' : serve starts <> []) by (intros E'; rewrite E' in Hl; cbn [length] in Hl; lia).
    split; [exact Hne'|]. split; [|lia].
    rewrite <- (last_nth_error (serve starts) 0 Hne').
    rewrite serve_nth by (auto; lia). f_equal. rewrite Hst, Hl. lia.
  Qed.

  (* --- serve_no_new_info (only needs main <> []) --- *)
  Theorem serve_no_new_info_gen prefix s suffix hs :
    Forall skippable prefix -> height_of s = Some hs -> head_height <= hs ->
    serve (prefix ++ s :: suffix) = [].
  Proof. clear Hcons.
    intros HF Hh Hle. rewrite serve_spec.
    replace (scan (prefix ++ s :: suffix)) with (@Some (option N) None); [reflexivity|].
    symmetry. apply scan_silent_iff. exists prefix, s, suffix, hs. repeat split; auto.
    apply main_at_none_iff. lia.
  Qed.

  Lemma unknown_skippable l : Forall (fun x => height_of x = None) l -> Forall skippable l.
  Proof using. apply Forall_impl. intros a H. left. exact H. Qed.

  Theorem serve_no_new_info prefix s suffix hs :
    Forall (fun x => height_of x = None) prefix -> height_of s = Some hs -> head_height <= hs ->
    serve (prefix ++ s :: suffix) = [].
  Proof. clear Hcons. intros HF. apply serve_no_new_info_gen. apply unknown_skippable; exact HF. Qed.

  (* The model's behaviour on a stored side-branch block at (or above) the server's head height: as soon as the scan
     reaches it the reply is empty, whatever follows in the announced list (e.g. common ancestors on the active
     chain further down the list are never looked at). *)
  Theorem side_branch_tip_silences prefix s suffix hs :
    Forall skippable prefix -> ~ In s main -> height_of s = Some hs -> head_height <= hs ->
    scan (prefix ++ s :: suffix) = Some None /\ serve (prefix ++ s :: suffix) = [].
  Proof. clear Hcons.
    intros HF _ Hh Hle. split; [|eapply serve_no_new_info_gen; eauto].
    apply scan_silent_iff. exists prefix, s, suffix, hs. repeat split; auto.
    apply main_at_none_iff. lia.
  Qed.

  (* the server's own head announced first (after unknown ids): empty reply *)
  Corollary serve_head_silent prefix s suffix :
    Forall (fun x => height_of x = None) prefix -> main_at head_height = Some s ->
    serve (prefix ++ s :: suffix) = [].
  Proof.
    intros HF Hm. apply (serve_no_new_info prefix s suffix head_height);
      [exact HF|apply main_at_height; exact Hm|lia].
  Qed.

  (* --- serve_progress --- *)

  (* first-match form: the reply strictly extends the FIRST announced id that lies on the active chain *)
  Theorem serve_progress_first prefix s suffix hs :
    0 < batch -> Forall skippable prefix ->
    height_of s = Some hs -> main_at hs = Some s -> hs < head_height ->
    let ids := serve (prefix ++ s :: suffix) in
    ids <> [] /\ start_of (prefix ++ s :: suffix) = hs + 1 /\
    height_of (last ids 0) = Some (N.min (hs + batch) head_height) /\
    main_at (N.min (hs + batch) head_height) = Some (last ids 0) /\
    hs < N.min (hs + batch) head_height.
  Proof.
    intros Hb HF Hh Hm Hlt ids.
    assert (E : scan (prefix ++ s :: suffix) = Some (Some (hs + 1))).
    { apply scan_hit_iff. exists prefix, s, suffix, hs. repeat split; auto. apply main_at_some_iff. lia. }
    destruct (serve_last _ _ Hb E) as (H1 & H2 & H3). fold ids in H1, H2.
    replace (hs + 1 + batch - 1) with (hs + batch) in H2, H3 by lia.
    split; [exact H1|]. split; [unfold start_of; rewrite E; reflexivity|].
    split; [apply main_at_height; exact H2|]. split; [exact H2|lia].
  Qed.

  (* ORIGINAL (false, see serve_progress_refuted below): "... In s starts, s on the active chain at hs < head, no
     earlier empty-reply trigger -> reply non-empty and height (last reply) = min(start+batch-1, head) > hs".
     The start is fixed by the FIRST matching announced id, which may be lower than s when the announced list is not
     height-descending; also 0 < batch is needed.  General form that is true: an announced active-chain id below the head and no "no new info" break give a
     non-empty reply whose last id has height min(start+batch-1, head) > start-1 = height of the first match *)
  Theorem serve_progress_partial starts s hs :
    0 < batch -> In s starts -> height_of s = Some hs -> main_at hs = Some s -> hs < head_height ->
    scan starts <> Some None ->
    exists st s', scan starts = Some (Some st) /\ 1 <= st /\
      In s' starts /\ height_of s' = Some (st - 1) /\ main_at (st - 1) = Some s' /\
      serve starts <> [] /\
      height_of (last (serve starts) 0) = Some (N.min (st + batch - 1) head_height) /\
      st - 1 < N.min (st + batch - 1) head_height.
  Proof.
    intros Hb Hin Hh Hm Hlt Hsc.
    destruct (scan starts) as [[st|]|] eqn:E; [|congruence|].
    - destruct (serve_last _ _ Hb E) as (H1 & H2 & H3).
      apply scan_hit_iff in E. destruct E as (p & s' & suf & hs' & -> & HF & G1 & G2 & G3 & ->).
      exists (hs' + 1), s'. replace (hs' + 1 - 1) with hs' by lia.
      split; [reflexivity|]. split; [lia|].
      split; [apply in_or_app; right; left; reflexivity|].
      split; [exact G1|]. split; [exact G2|]. split; [exact H1|].
      split; [apply main_at_height; exact H2|lia].
    - exfalso. apply scan_none_iff in E. rewrite Forall_forall in E. specialize (E s Hin).
      apply (skippable_not_hit s hs E). repeat split; auto. apply main_at_some_iff. lia.
  Qed.

  (* With the announced ids in strictly decreasing height order (as a locator built from recent_heights is), the
     original statement holds for EVERY announced active-chain id. *)
  Definition desc_heights (starts : list N) : Prop :=
    StronglySorted (fun a b => forall ha hb, height_of a = Some ha -> height_of b = Some hb -> hb < ha) starts.

  Lemma StronglySorted_app_mid {A} (R : A -> A -> Prop) p x suf :
    StronglySorted R (p ++ x :: suf) -> Forall (R x) suf.
  Proof.
    induction p as [|a p IH]; cbn; intros H; inversion H; subst; auto.
  Qed.

  Theorem serve_progress_sorted starts s hs :
    0 < batch -> desc_heights starts ->
    In s starts -> height_of s = Some hs -> main_at hs = Some s -> hs < head_height ->
    scan starts <> Some None ->
    serve starts <> [] /\
    height_of (last (serve starts) 0) = Some (N.min (start_of starts + batch - 1) head_height) /\
    hs < N.min (start_of starts + batch - 1) head_height.
  Proof.
    intros Hb Hsort Hin Hh Hm Hlt Hsc.
    destruct (serve_progress_partial starts s hs Hb Hin Hh Hm Hlt Hsc)
      as (st & s' & E & Hst & Hin' & Hh' & Hm' & Hne' & Hlast & Hgt).
    assert (Hstart : start_of starts = st) by (unfold start_of; rewrite E; reflexivity).
    rewrite Hstart. split; [exact Hne'|]. split; [exact Hlast|].
    enough (hs <= st - 1) by lia.
    apply scan_hit_iff in E. destruct E as (p & t & suf & ht & -> & HF & G1 & G2 & G3 & ->).
    replace (ht + 1 - 1) with ht by lia.
    apply in_app_or in Hin. destruct Hin as [Hp|[->|Hsuf]].
    - exfalso. rewrite Forall_forall in HF. apply (skippable_not_hit s hs (HF s Hp)).
      repeat split; auto. apply main_at_some_iff. lia.
    - assert (ht = hs) by congruence. lia.
    - apply StronglySorted_app_mid in Hsort. rewrite Forall_forall in Hsort.
      specialize (Hsort s Hsuf ht hs G1 Hh). lia.
  Qed.

End ServeProofs.

(* ================================================================== *)
(* Part 3 : non-vacuity                                                *)
(* ================================================================== *)

Definition ex_main : list N := [100; 101; 102; 103; 104; 105].
(* 202: side-branch block at height 2; 205: side-branch block at the head height 5 *)
Definition ex_height_of (i : N) : option N :=
  if i =? 202 then Some 2 else if i =? 205 then Some 5
  else if (100 <=? i) && (i <=? 105) then Some (i - 100) else None.

Lemma ex_main_ne : ex_main <> [].
Proof. discriminate. Qed.

Lemma ex_cons : forall i h, nth_error ex_main (N.to_nat h) = Some i -> ex_height_of i = Some h.
Proof.
  intros i h H.
  destruct (N.to_nat h) as [|[|[|[|[|[|n]]]]]] eqn:E; cbn in H;
    try (injection H as <-; vm_compute; f_equal; lia).
  destruct n; discriminate.
Qed.

Lemma ex_nodup : NoDup ex_main.
Proof. exact (cons_NoDup ex_main ex_height_of ex_cons). Qed.

Example ex_serve_side_then_main : serve 3 ex_main ex_height_of [999; 202; 101] = [102; 103; 104].
Proof. vm_compute. reflexivity. Qed.
Example ex_serve_head : serve 3 ex_main ex_height_of [105] = [].
Proof. vm_compute. reflexivity. Qed.
Example ex_serve_unknown : serve 3 ex_main ex_height_of [999] = [101; 102; 103].
Proof. vm_compute. reflexivity. Qed.
Example ex_serve_tail : serve 3 ex_main ex_height_of [103] = [104; 105].
Proof. vm_compute. reflexivity. Qed.
(* side-branch tip at the head height silences the server although 103 (active chain, below head) follows *)
Example ex_side_branch_tip_silences : serve 3 ex_main ex_height_of [205; 103] = [].
Proof. vm_compute. reflexivity. Qed.
Example ex_recent_heights_20 : recent_heights 20 = [20; 19; 18; 17; 16; 15; 14; 13; 12; 11; 4].
Proof. vm_compute. reflexivity. Qed.

(* The original serve_progress statement ("last id has height > hs for any announced active-chain id at height
   hs < head") is false without the ordering hypothesis: announced [101; 104] (increasing heights), batch 3:
   the first match 101 fixes start = 2, the reply is [102;103;104], whose last height 4 is not > 4. *)
Theorem serve_progress_refuted :
  exists batch main height_of starts s hs,
    main <> [] /\ (forall i h, nth_error main (N.to_nat h) = Some i -> height_of i = Some h) /\ NoDup main /\
    0 < batch /\ In s starts /\ height_of s = Some hs /\ main_at main hs = Some s /\ hs < head_height main /\
    scan main height_of starts <> Some None /\
    serve batch main height_of starts <> [] /\
    ~ (exists hl, height_of (last (serve batch main height_of starts) 0) = Some hl /\ hs < hl).
Proof.
  exists 3, ex_main, ex_height_of, [101; 104], 104, 4.
  split; [exact ex_main_ne|]. split; [exact ex_cons|]. split; [exact ex_nodup|].
  split; [lia|]. split; [right; left; reflexivity|]. split; [reflexivity|]. split; [reflexivity|].
  split; [vm_compute; reflexivity|]. split; [vm_compute; discriminate|]. split; [vm_compute; discriminate|].
  intros (hl & H1 & H2). vm_compute in H1. injection H1 as <-. lia.
Qed.

