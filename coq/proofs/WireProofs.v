(* Proofs about the wire-message codecs of model/Wire.v (networking/messages.py):
     (R) round trip            wf x = true -> dec (enc x ++ r) = Some (x, r)          for every message type
     (F) frames                dec_frame (enc_msg_header h ++ enc_msg m ++ trailing) = Some (h, m)
     (E) encodings are bytes   wf x = true -> bytes_wf (enc x)
     (W) decoded values wf     bytes_wf bs -> dec bs = Some (x, r) -> wf x = true /\ bytes_wf r
     (N) recorded NON-canonicity: the decoders ignore the version byte of the header / of Hello and the reserved
         padding, so wire messages only round-trip (different byte strings decode to the same message).
   The sub-codecs that do not skip anything (version, hash32, item, peer, payload and all messages except Hello)
   are additionally shown canonical. *)
From Coq Require Import NArith List Lia ZArith Bool Arith.
From Coq Require Import ZifyBool ZifyN ZifyNat.
From SkV Require Import Bytes Vlq Codec Wire VlqProofs CodecProofs.
Import ListNotations.
Open Scope N_scope.
Ltac Zify.zify_post_hook ::= Z.to_euclidean_division_equations.

(* ================= primitives: zeros, 2-byte big endian ================= *)

Lemma zeros_length n : length (zeros n) = n.
Proof. unfold zeros. apply repeat_length. Qed.

Lemma zeros_wf n : bytes_wf (zeros n).
Proof.
  unfold zeros, bytes_wf. induction n as [|n IH]; cbn [repeat]; [constructor|].
  constructor; [lia|exact IH].
Qed.

Lemma take_zeros n r : take n (zeros n ++ r) = Some (zeros n, r).
Proof. apply take_app, zeros_length. Qed.

Lemma pow256_2 : 256 ^ N.of_nat 2 = 2 ^ 16.   Proof. reflexivity. Qed.

Lemma dec_be2_rt v r : (v <? 2 ^ 16) = true -> dec_be 2 (be_enc 2 v ++ r) = Some (v, r).
Proof. intros H. apply dec_be_rt. rewrite pow256_2. apply N.ltb_lt, H. Qed.

Lemma dec_be2_inv bs v r : bytes_wf bs -> dec_be 2 bs = Some (v, r) ->
  bs = be_enc 2 v ++ r /\ (v <? 2 ^ 16) = true /\ bytes_wf r.
Proof. intros Hwf H. destruct (dec_be_inv _ _ _ _ Hwf H) as (H1 & H2 & H3). rewrite pow256_2 in H2.
  split; [exact H1|]. split; [apply N.ltb_lt, H2|exact H3]. Qed.

(* resolve the leading tag bytes of a decoder: destruct the variables scrutinised in [H] until a decoder call
   is reached, discarding the impossible branches *)
Ltac destr_tags H :=
  repeat (match type of H with
          | context [match ?x with _ => _ end] => is_var x; destruct x; cbv beta iota in H; try discriminate H
          end).
Ltac strip_wf :=
  repeat match goal with Hw : bytes_wf (_ :: _) |- _ => apply bytes_wf_cons in Hw as [_ Hw] end.

(* ================= version (1 byte) ================= *)
Theorem dec_version_roundtrip v r : (v <? 256) = true -> dec_version (enc_version v ++ r) = Some (v, r).
Proof. apply dec_be1_rt. Qed.

Lemma dec_version_inv bs v r : bytes_wf bs -> dec_version bs = Some (v, r) ->
  bs = enc_version v ++ r /\ (v <? 256) = true /\ bytes_wf r.
Proof. apply dec_be1_inv. Qed.

Theorem dec_version_canonical bs v r : bytes_wf bs -> dec_version bs = Some (v, r) -> enc_version v ++ r = bs.
Proof. canon_from dec_version_inv. Qed.
Theorem dec_version_wf bs v r : bytes_wf bs -> dec_version bs = Some (v, r) -> (v <? 256) = true /\ bytes_wf r.
Proof. wfd_from dec_version_inv. Qed.
Theorem enc_version_wf v : (v <? 256) = true -> bytes_wf (enc_version v).
Proof. intros _. apply be_enc_wf. Qed.
Lemma enc_version_nonempty v : (v <? 256) = true -> (0 < length (enc_version v))%nat.
Proof. intros _. unfold enc_version. rewrite be_enc_length. lia. Qed.

(* ================= hash32 (wf = len_is 32) ================= *)
Theorem dec_hash32_roundtrip h r : len_is 32 h = true -> dec_hash32 (enc_hash32 h ++ r) = Some (h, r).
Proof. apply take_rt. Qed.

Lemma dec_hash32_inv bs h r : bytes_wf bs -> dec_hash32 bs = Some (h, r) ->
  bs = enc_hash32 h ++ r /\ len_is 32 h = true /\ bytes_wf r.
Proof. apply take_inv_wf. Qed.

Theorem dec_hash32_canonical bs h r : bytes_wf bs -> dec_hash32 bs = Some (h, r) -> enc_hash32 h ++ r = bs.
Proof. canon_from dec_hash32_inv. Qed.
Theorem dec_hash32_wf bs h r : bytes_wf bs -> dec_hash32 bs = Some (h, r) -> len_is 32 h = true /\ bytes_wf r.
Proof. wfd_from dec_hash32_inv. Qed.
Theorem enc_hash32_wf h : len_is 32 h = true -> bytes_wf (enc_hash32 h).
Proof. apply len_is_wf. Qed.
Lemma enc_hash32_nonempty h : len_is 32 h = true -> (0 < length (enc_hash32 h))%nat.
Proof. intros H. unfold enc_hash32. rewrite (len_is_length _ _ H). lia. Qed.

(* ================= inventory item (2 + 32 bytes) ================= *)
Theorem dec_item_roundtrip it r : len_is 2 (fst it) && len_is 32 (snd it) = true ->
  dec_item (enc_item it ++ r) = Some (it, r).
Proof.
  destruct it as [dt h]. unfold enc_item, dec_item. cbn [fst snd]. intros H. split_andb.
  rewrite <- app_assoc. rewrite take_rt by assumption. cbv beta iota.
  rewrite take_rt by assumption. reflexivity.
Qed.

Lemma dec_item_inv bs it r : bytes_wf bs -> dec_item bs = Some (it, r) ->
  bs = enc_item it ++ r /\ len_is 2 (fst it) && len_is 32 (snd it) = true /\ bytes_wf r.
Proof.
  intros Hwf H. unfold dec_item in H.
  step take_inv_wf H. step take_inv_wf H. finish H ltac:(unfold enc_item; cbn [fst snd]).
  cbn [fst snd]. solve_andb.
Qed.

Theorem dec_item_canonical bs it r : bytes_wf bs -> dec_item bs = Some (it, r) -> enc_item it ++ r = bs.
Proof. canon_from dec_item_inv. Qed.
Theorem dec_item_wf bs it r : bytes_wf bs -> dec_item bs = Some (it, r) ->
  len_is 2 (fst it) && len_is 32 (snd it) = true /\ bytes_wf r.
Proof. wfd_from dec_item_inv. Qed.
Theorem enc_item_wf it : len_is 2 (fst it) && len_is 32 (snd it) = true -> bytes_wf (enc_item it).
Proof. destruct it as [dt h]. unfold enc_item. cbn [fst snd]. intros H. split_andb. solve_bytes_wf. Qed.
Lemma enc_item_nonempty it : len_is 2 (fst it) && len_is 32 (snd it) = true -> (0 < length (enc_item it))%nat.
Proof.
  destruct it as [dt h]. unfold enc_item. cbn [fst snd]. intros H. split_andb.
  rewrite app_length. erewrite (len_is_length 2 dt) by eassumption. lia.
Qed.

(* ================= peer ================= *)
Theorem dec_peer_roundtrip p r : wf_peer p = true -> dec_peer (enc_peer p ++ r) = Some (p, r).
Proof.
  destruct p as [s ip pt]. unfold wf_peer, enc_peer, dec_peer. cbn [pr_seen pr_ip pr_port]. intros H. split_andb.
  repeat rewrite <- app_assoc.
  rewrite dec_be4_rt by assumption. cbv beta iota.
  rewrite take_rt by assumption. cbv beta iota.
  rewrite dec_be2_rt by assumption. reflexivity.
Qed.

Lemma dec_peer_inv bs p r : bytes_wf bs -> dec_peer bs = Some (p, r) ->
  bs = enc_peer p ++ r /\ wf_peer p = true /\ bytes_wf r.
Proof.
  intros Hwf H. unfold dec_peer in H.
  step dec_be4_inv H. step take_inv_wf H. step dec_be2_inv H.
  finish H ltac:(unfold enc_peer; cbn [pr_seen pr_ip pr_port]).
  unfold wf_peer; cbn [pr_seen pr_ip pr_port]. solve_andb.
Qed.

Theorem dec_peer_canonical bs p r : bytes_wf bs -> dec_peer bs = Some (p, r) -> enc_peer p ++ r = bs.
Proof. canon_from dec_peer_inv. Qed.
Theorem dec_peer_wf bs p r : bytes_wf bs -> dec_peer bs = Some (p, r) -> wf_peer p = true /\ bytes_wf r.
Proof. wfd_from dec_peer_inv. Qed.
Theorem enc_peer_wf p : wf_peer p = true -> bytes_wf (enc_peer p).
Proof.
  destruct p as [s ip pt]. unfold wf_peer, enc_peer. cbn [pr_seen pr_ip pr_port]. intros H. split_andb.
  solve_bytes_wf.
Qed.
Lemma enc_peer_nonempty p : wf_peer p = true -> (0 < length (enc_peer p))%nat.
Proof. intros _. unfold enc_peer. rewrite app_length, be_enc_length. lia. Qed.

(* ================= message header ================= *)
Theorem dec_msg_header_roundtrip h r : wf_msg_header h = true -> dec_msg_header (enc_msg_header h ++ r) = Some (h, r).
Proof.
  destruct h as [t i q c]. unfold wf_msg_header, enc_msg_header, dec_msg_header.
  cbn [mh_time mh_id mh_irt mh_ctx]. intros H. split_andb.
  repeat rewrite <- app_assoc.
  rewrite (take_app 1 [0]) by reflexivity. cbv beta iota.
  rewrite dec_be4_rt by assumption. cbv beta iota.
  rewrite dec_be4_rt by assumption. cbv beta iota.
  rewrite dec_be4_rt by assumption. cbv beta iota.
  rewrite dec_be8_rt by assumption. cbv beta iota.
  rewrite take_zeros. reflexivity.
Qed.

Theorem dec_msg_header_wf bs h r : bytes_wf bs -> dec_msg_header bs = Some (h, r) ->
  wf_msg_header h = true /\ bytes_wf r.
Proof.
  intros Hwf H. unfold dec_msg_header in H.
  step take_inv_wf H. step dec_be4_inv H. step dec_be4_inv H. step dec_be4_inv H. step dec_be8_inv H.
  step take_inv_wf H. inversion H; subst; clear H. split; [|assumption].
  unfold wf_msg_header; cbn [mh_time mh_id mh_irt mh_ctx]. solve_andb.
Qed.

Theorem enc_msg_header_wf h : wf_msg_header h = true -> bytes_wf (enc_msg_header h).
Proof. intros _. unfold enc_msg_header. solve_bytes_wf. apply zeros_wf. Qed.

Lemma enc_msg_header_length h : length (enc_msg_header h) = 53%nat.
Proof. unfold enc_msg_header. repeat rewrite app_length. repeat rewrite be_enc_length. rewrite zeros_length. reflexivity. Qed.

(* ================= hello ================= *)
Theorem dec_hello_roundtrip h r : wf_hello h = true -> dec_hello (enc_hello h ++ r) = Some (h, r).
Proof.
  destruct h as [yip yp mip mp nonce ua vs]. unfold wf_hello, enc_hello, dec_hello.
  cbn [hl_your_ip hl_your_port hl_my_ip hl_my_port hl_nonce hl_agent hl_versions]. intros H. split_andb.
  repeat rewrite <- app_assoc.
  rewrite (take_app 1 [0]) by reflexivity. cbv beta iota.
  rewrite take_rt by assumption. cbv beta iota.
  rewrite dec_be2_rt by assumption. cbv beta iota.
  rewrite take_rt by assumption. cbv beta iota.
  rewrite dec_be2_rt by assumption. cbv beta iota.
  rewrite dec_be4_rt by assumption. cbv beta iota.
  rewrite dec_be1_rt by assumption. cbv beta iota.
  rewrite Nat2N.id. rewrite take_app by reflexivity. cbv beta iota.
  rewrite (dec_list_roundtrip (fun v => v <? 256) enc_version dec_version dec_version_roundtrip enc_version_nonempty)
    by assumption.
  cbv beta iota. rewrite take_zeros. reflexivity.
Qed.

Theorem dec_hello_wf bs h r : bytes_wf bs -> dec_hello bs = Some (h, r) -> wf_hello h = true /\ bytes_wf r.
Proof.
  intros Hwf H. unfold dec_hello in H.
  step take_inv_wf H. step take_inv_wf H. step dec_be2_inv H. step take_inv_wf H. step dec_be2_inv H.
  step dec_be4_inv H. step dec_be1_inv H.
  match type of H with context [match ?d with _ => _ end] =>
    destruct d as [[ua r7]|] eqn:E; [|discriminate H] end.
  eapply take_inv_wf in E; [|eassumption]. destruct E as (-> & Hua & Hr7). cbv beta iota in H.
  step (dec_list_inv (fun v => v <? 256) enc_version dec_version dec_version_canonical dec_version_wf) H.
  step take_inv_wf H. inversion H; subst; clear H. split; [|assumption].
  apply len_is_iff in Hua as [Hl Hb]. apply bytes_wfb_iff in Hb.
  unfold wf_hello; cbn [hl_your_ip hl_your_port hl_my_ip hl_my_port hl_nonce hl_agent hl_versions].
  rewrite Hl, N2Nat.id. solve_andb.
Qed.

Theorem enc_hello_wf h : wf_hello h = true -> bytes_wf (enc_hello h).
Proof.
  destruct h as [yip yp mip mp nonce ua vs]. unfold wf_hello, enc_hello.
  cbn [hl_your_ip hl_your_port hl_my_ip hl_my_port hl_nonce hl_agent hl_versions]. intros H. split_andb.
  solve_bytes_wf.
  - apply bytes_wfb_iff. assumption.
  - apply (enc_list_wf (fun v => v <? 256) enc_version enc_version_wf). assumption.
  - apply zeros_wf.
Qed.

(* ================= payload ================= *)
Theorem dec_payload_roundtrip p r : wf_payload p = true -> dec_payload (enc_payload p ++ r) = Some (p, r).
Proof.
  destruct p as [b|h|t]; unfold wf_payload, enc_payload; intros H;
    rewrite <- app_assoc; cbn [app]; cbv beta iota delta [dec_payload].
  - rewrite dec_block_roundtrip by assumption. reflexivity.
  - rewrite dec_header_roundtrip by assumption. reflexivity.
  - rewrite dec_tx_roundtrip by assumption. reflexivity.
Qed.

Lemma dec_payload_inv bs p r : bytes_wf bs -> dec_payload bs = Some (p, r) ->
  bs = enc_payload p ++ r /\ wf_payload p = true /\ bytes_wf r.
Proof.
  intros Hwf H. unfold dec_payload in H. destr_tags H; strip_wf.
  - step dec_block_inv H. inversion H; subst; clear H. split; [reflexivity|]. split; assumption.
  - step dec_tx_inv H. inversion H; subst; clear H. split; [reflexivity|]. split; assumption.
  - step dec_header_inv H. inversion H; subst; clear H. split; [reflexivity|]. split; assumption.
Qed.

Theorem dec_payload_canonical bs p r : bytes_wf bs -> dec_payload bs = Some (p, r) -> enc_payload p ++ r = bs.
Proof. canon_from dec_payload_inv. Qed.
Theorem dec_payload_wf bs p r : bytes_wf bs -> dec_payload bs = Some (p, r) -> wf_payload p = true /\ bytes_wf r.
Proof. wfd_from dec_payload_inv. Qed.
Theorem enc_payload_wf p : wf_payload p = true -> bytes_wf (enc_payload p).
Proof.
  destruct p as [b|h|t]; unfold wf_payload, enc_payload; intros H;
    (apply bytes_wf_app; split; [apply bytes_wfb_iff; reflexivity|]).
  - apply enc_block_wf, H.
  - apply enc_header_wf, H.
  - apply enc_tx_wf, H.
Qed.

(* ================= messages ================= *)
Theorem dec_msg_roundtrip m r : wf_msg m = true -> dec_msg (enc_msg m ++ r) = Some (m, r).
Proof.
  destruct m as [h|starts stop|items|dt h|p| |ps]; unfold wf_msg, enc_msg; intros H;
    repeat rewrite <- app_assoc; cbn [app]; cbv beta iota delta [dec_msg].
  - rewrite dec_hello_roundtrip by assumption. reflexivity.
  - split_andb.
    rewrite (dec_list_roundtrip (len_is 32) enc_hash32 dec_hash32 dec_hash32_roundtrip enc_hash32_nonempty)
      by assumption.
    cbv beta iota. rewrite take_rt by assumption. reflexivity.
  - rewrite (dec_list_roundtrip (fun it => len_is 2 (fst it) && len_is 32 (snd it)) enc_item dec_item
               dec_item_roundtrip enc_item_nonempty) by assumption.
    reflexivity.
  - split_andb. rewrite take_rt by assumption. cbv beta iota. rewrite take_rt by assumption. reflexivity.
  - rewrite dec_payload_roundtrip by assumption. reflexivity.
  - reflexivity.
  - rewrite (dec_list_roundtrip wf_peer enc_peer dec_peer dec_peer_roundtrip enc_peer_nonempty) by assumption.
    reflexivity.
Qed.

Ltac canon_msg := unfold enc_msg; cbn [app]; repeat rewrite <- app_assoc; cbn [app]; reflexivity.

(* (W) together with canonicity for every message except Hello (whose decoder skips version and padding) *)
Lemma dec_msg_inv bs m r : bytes_wf bs -> dec_msg bs = Some (m, r) ->
  match m with MHello _ => True | _ => bs = enc_msg m ++ r end /\ wf_msg m = true /\ bytes_wf r.
Proof.
  intros Hwf H. unfold dec_msg in H. destr_tags H; strip_wf.
  - (* hello *)
    destruct (dec_hello bs) as [[h r1]|] eqn:E; [|discriminate H]. inversion H; subst; clear H.
    destruct (dec_hello_wf _ _ _ Hwf E) as [Hh Hr]. split; [exact I|]. split; assumption.
  - (* get peers *)
    inversion H; subst; clear H. split; [canon_msg|]. split; [reflexivity|assumption].
  - (* get data *)
    step take_inv_wf H. step take_inv_wf H. inversion H; subst; clear H.
    split; [canon_msg|]. split; [|assumption]. unfold wf_msg. solve_andb.
  - (* peers *)
    step (dec_list_inv wf_peer enc_peer dec_peer dec_peer_canonical dec_peer_wf) H.
    inversion H; subst; clear H. split; [canon_msg|]. split; assumption.
  - (* data *)
    step dec_payload_inv H. inversion H; subst; clear H. split; [canon_msg|]. split; assumption.
  - (* inventory *)
    step (dec_list_inv (fun it => len_is 2 (fst it) && len_is 32 (snd it)) enc_item dec_item
            dec_item_canonical dec_item_wf) H.
    inversion H; subst; clear H. split; [canon_msg|]. split; assumption.
  - (* get blocks *)
    step (dec_list_inv (len_is 32) enc_hash32 dec_hash32 dec_hash32_canonical dec_hash32_wf) H.
    step take_inv_wf H. inversion H; subst; clear H.
    split; [canon_msg|].
    split; [|assumption]. unfold wf_msg. solve_andb.
Qed.

Theorem dec_msg_wf bs m r : bytes_wf bs -> dec_msg bs = Some (m, r) -> wf_msg m = true /\ bytes_wf r.
Proof. wfd_from dec_msg_inv. Qed.

(* every message other than Hello is even canonical *)
Theorem dec_msg_canonical_nonhello bs m r : bytes_wf bs -> dec_msg bs = Some (m, r) ->
  (forall h, m <> MHello h) -> enc_msg m ++ r = bs.
Proof.
  intros Hwf H Hn. destruct (dec_msg_inv _ _ _ Hwf H) as (Hc & _ & _).
  destruct m; try (symmetry; exact Hc). exfalso. eapply Hn. reflexivity.
Qed.

Theorem enc_msg_wf m : wf_msg m = true -> bytes_wf (enc_msg m).
Proof.
  destruct m as [h|starts stop|items|dt h|p| |ps]; unfold wf_msg, enc_msg; intros H;
    (apply bytes_wf_app; split; [apply bytes_wfb_iff; reflexivity|]).
  - apply enc_hello_wf, H.
  - split_andb. solve_bytes_wf. apply (enc_list_wf (len_is 32) enc_hash32 enc_hash32_wf). assumption.
  - solve_bytes_wf.
    apply (enc_list_wf (fun it => len_is 2 (fst it) && len_is 32 (snd it)) enc_item enc_item_wf). assumption.
  - split_andb. solve_bytes_wf.
  - solve_bytes_wf. apply enc_payload_wf, H.
  - apply bytes_wfb_iff. reflexivity.
  - solve_bytes_wf. apply (enc_list_wf wf_peer enc_peer enc_peer_wf). assumption.
Qed.

(* whatever the node decodes it can re-encode, and the re-encoding decodes to the same message *)
Theorem dec_msg_reencode bs m r r' : bytes_wf bs -> dec_msg bs = Some (m, r) ->
  bytes_wf (enc_msg m) /\ dec_msg (enc_msg m ++ r') = Some (m, r').
Proof.
  intros Hwf H. destruct (dec_msg_wf _ _ _ Hwf H) as [Hm _].
  split; [apply enc_msg_wf, Hm|apply dec_msg_roundtrip, Hm].
Qed.

Theorem dec_msg_header_reencode bs h r r' : bytes_wf bs -> dec_msg_header bs = Some (h, r) ->
  bytes_wf (enc_msg_header h) /\ dec_msg_header (enc_msg_header h ++ r') = Some (h, r').
Proof.
  intros Hwf H. destruct (dec_msg_header_wf _ _ _ Hwf H) as [Hm _].
  split; [apply enc_msg_header_wf, Hm|apply dec_msg_header_roundtrip, Hm].
Qed.

(* ================= frames ================= *)
Theorem dec_frame_roundtrip h m trailing : wf_msg_header h = true -> wf_msg m = true ->
  dec_frame (enc_msg_header h ++ enc_msg m ++ trailing) = Some (h, m).
Proof.
  intros Hh Hm. unfold dec_frame. rewrite dec_msg_header_roundtrip by exact Hh. cbv beta iota.
  rewrite dec_msg_roundtrip by exact Hm. reflexivity.
Qed.

Theorem dec_frame_wf bs h m : bytes_wf bs -> dec_frame bs = Some (h, m) ->
  wf_msg_header h = true /\ wf_msg m = true.
Proof.
  intros Hwf H. unfold dec_frame in H.
  destruct (dec_msg_header bs) as [[h0 r0]|] eqn:E; [|discriminate H].
  destruct (dec_msg r0) as [[m0 r1]|] eqn:E1; [|discriminate H]. inversion H; subst; clear H.
  destruct (dec_msg_header_wf _ _ _ Hwf E) as [Hh Hr0]. destruct (dec_msg_wf _ _ _ Hr0 E1) as [Hm _].
  split; assumption.
Qed.

Theorem enc_frame_wf h m : wf_msg_header h = true -> wf_msg m = true -> bytes_wf (enc_msg_header h ++ enc_msg m).
Proof. intros Hh Hm. apply bytes_wf_app. split; [apply enc_msg_header_wf, Hh|apply enc_msg_wf, Hm]. Qed.

(* a decoded frame re-encodes to a frame that decodes to the same (header, message) *)
Theorem dec_frame_reencode bs h m trailing : bytes_wf bs -> dec_frame bs = Some (h, m) ->
  dec_frame (enc_msg_header h ++ enc_msg m ++ trailing) = Some (h, m).
Proof.
  intros Hwf H. destruct (dec_frame_wf _ _ _ Hwf H) as [Hh Hm]. apply dec_frame_roundtrip; assumption.
Qed.

(* ================= (N) recorded non-canonicity ================= *)

(* the header decoder ignores the version byte: a header with version byte 7 decodes, but re-encodes differently *)
Theorem dec_msg_header_ignores_version :
  exists bs h r, bytes_wf bs /\ dec_msg_header bs = Some (h, r) /\ enc_msg_header h ++ r <> bs.
Proof.
  exists (7 :: zeros 52), (mkMH 0 0 0 0), []. split; [|split].
  - apply bytes_wfb_iff. vm_compute. reflexivity.
  - vm_compute. reflexivity.
  - vm_compute. discriminate.
Qed.

(* ... and the reserved padding: 32 bytes of 0xff instead of zeros *)
Theorem dec_msg_header_ignores_padding :
  exists bs h r, bytes_wf bs /\ dec_msg_header bs = Some (h, r) /\ enc_msg_header h ++ r <> bs.
Proof.
  exists (zeros 21 ++ repeat 255 32), (mkMH 0 0 0 0), []. split; [|split].
  - apply bytes_wfb_iff. vm_compute. reflexivity.
  - vm_compute. reflexivity.
  - vm_compute. discriminate.
Qed.

(* two different wire strings decode to the same header *)
Theorem dec_msg_header_not_injective :
  exists bs1 bs2 h, bytes_wf bs1 /\ bytes_wf bs2 /\ bs1 <> bs2 /\
                    dec_msg_header bs1 = Some (h, []) /\ dec_msg_header bs2 = Some (h, []).
Proof.
  exists (7 :: zeros 52), (zeros 53), (mkMH 0 0 0 0). repeat split.
  - apply bytes_wfb_iff. vm_compute. reflexivity.
  - apply zeros_wf.
  - vm_compute. discriminate.
Qed.

(* the Hello decoder ignores its version byte as well *)
Theorem dec_hello_ignores_version :
  exists bs h r, bytes_wf bs /\ dec_hello bs = Some (h, r) /\ enc_hello h ++ r <> bs.
Proof.
  exists (7 :: zeros 298), (mkHello (zeros 16) 0 (zeros 16) 0 0 [] []), []. split; [|split].
  - apply bytes_wfb_iff. vm_compute. reflexivity.
  - vm_compute. reflexivity.
  - vm_compute. discriminate.
Qed.

Theorem dec_msg_hello_not_canonical :
  exists bs m r, bytes_wf bs /\ dec_msg bs = Some (m, r) /\ enc_msg m ++ r <> bs.
Proof.
  exists (0 :: 0 :: 7 :: zeros 298), (MHello (mkHello (zeros 16) 0 (zeros 16) 0 0 [] [])), []. split; [|split].
  - apply bytes_wfb_iff. vm_compute. reflexivity.
  - vm_compute. reflexivity.
  - vm_compute. discriminate.
Qed.

(* frames: trailing bytes are ignored, so a frame is not canonical either *)
Theorem dec_frame_ignores_trailing h m t1 t2 : wf_msg_header h = true -> wf_msg m = true ->
  dec_frame (enc_msg_header h ++ enc_msg m ++ t1) = dec_frame (enc_msg_header h ++ enc_msg m ++ t2).
Proof. intros Hh Hm. rewrite !dec_frame_roundtrip by assumption. reflexivity. Qed.

