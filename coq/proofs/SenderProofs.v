(* The sending side of the stream framing (networking/remote_peer.py ConnectedRemotePeer.send_message:
   MAGIC + struct.pack(">I", len(data)) + data, appended to the connection's send buffer) composed with the receiver
   of model/Framing.v: whatever sequence of payloads one side sends, and however the transport cuts the resulting
   byte stream into reads, the other side's MessageReceiver hands exactly that sequence of payloads to
   handle_message_data, raises nothing, and is left in a state that stands for no pending byte.

   Side conditions, both necessary: a payload longer than MAX_MESSAGE_SIZE is refused by the receiver (TooLong,
   [send_oversize_refused]); a length >= 2^32 cannot be packed by the sender (struct.error in the implementation). *)
From Coq Require Import NArith List Lia ZArith Bool Arith.
From Coq Require Import ZifyBool ZifyN ZifyNat.
From SkV Require Import Bytes Framing CodecProofs FramingProofs.
Import ListNotations.
Open Scope N_scope.
Ltac Zify.zify_post_hook ::= Z.to_euclidean_division_equations.

Definition sendable (max : N) (p : bytes) : Prop :=
  bytes_wf p /\ N.of_nat (length p) <= max /\ N.of_nat (length p) < 2 ^ 32.

Lemma pow256_4 : 256 ^ N.of_nat 4 = 2 ^ 32.   Proof. reflexivity. Qed.

Lemma send_frame_wf p : bytes_wf p -> bytes_wf (send_frame p).
Proof.
  intros H. unfold send_frame. apply wf_app; [|apply wf_app; [apply be_enc_wf|exact H]].
  unfold MAGIC, bytes_wf. repeat constructor.
Qed.

Lemma send_stream_wf ps : Forall bytes_wf ps -> bytes_wf (send_stream ps).
Proof.
  induction 1 as [|p ps Hp _ IH]; [constructor|].
  unfold send_stream. cbn [map concat]. apply wf_app; [apply send_frame_wf; exact Hp|exact IH].
Qed.

Section Sender.
  Variable max : N.

  Lemma parse_send_frame_app p b : sendable max p ->
    parse_stream max (send_frame p ++ b) =
      let '(fs, e, rest) := parse_stream max b in (p :: fs, e, rest).
  Proof.
    intros (Hwf & Hmax & H32). unfold send_frame. rewrite <- !app_assoc.
    rewrite parse_hdr by apply be_enc_length.
    rewrite be_dec_enc by (rewrite pow256_4; exact H32).
    replace (max <? N.of_nat (length p)) with false by lia.
    rewrite Nat2N.id.
    replace (length (p ++ b) <? length p)%nat with false by (rewrite app_length; lia).
    rewrite skipn_app_le, firstn_app_le by lia.
    rewrite skipn_all, firstn_all. reflexivity.
  Qed.

  Theorem parse_send_stream ps : Forall (sendable max) ps ->
    parse_stream max (send_stream ps) = (ps, None, []).
  Proof.
    induction 1 as [|p ps Hp _ IH].
    - reflexivity.
    - unfold send_stream. cbn [map concat]. rewrite parse_send_frame_app by exact Hp.
      fold (send_stream ps). rewrite IH. reflexivity.
  Qed.

  (* a complete stream followed by a partial next frame: the complete ones are delivered, nothing is refused *)
  Theorem parse_send_stream_app ps tail : Forall (sendable max) ps ->
    parse_stream max (send_stream ps ++ tail) =
      let '(fs, e, rest) := parse_stream max tail in (ps ++ fs, e, rest).
  Proof.
    induction 1 as [|p ps Hp _ IH].
    - cbn [send_stream map concat app]. destruct (parse_stream max tail) as [[fs e] r]. reflexivity.
    - unfold send_stream. cbn [map concat]. rewrite <- app_assoc. rewrite parse_send_frame_app by exact Hp.
      fold (send_stream ps). rewrite IH. destruct (parse_stream max tail) as [[fs e] r]. reflexivity.
  Qed.

  (* end to end, for EVERY fragmentation of the sent stream into reads *)
  Theorem send_receive ps chunks : Forall (sendable max) ps -> Forall bytes_wf chunks ->
    concat chunks = send_stream ps ->
    fst (fst (feed max r_init chunks)) = ps /\
    snd (fst (feed max r_init chunks)) = None /\
    pending (snd (feed max r_init chunks)) = [].
  Proof.
    intros Hps Hch Hc. pose proof (feed_spec max chunks Hch) as F. rewrite Hc, (parse_send_stream ps Hps) in F.
    destruct (feed max r_init chunks) as [[fs e] st]. cbn [fst snd].
    destruct F as (F1 & F2 & F3). subst fs e. repeat split. apply F3. reflexivity.
  Qed.

  (* every PREFIX of the sent stream (the connection so far): a prefix of the payloads has been delivered, in order,
     nothing refused *)
  Theorem send_receive_prefix ps chunks later : Forall (sendable max) ps -> Forall bytes_wf chunks ->
    concat chunks ++ later = send_stream ps ->
    snd (fst (feed max r_init chunks)) = None /\
    exists more, fst (fst (feed max r_init chunks)) ++ more = ps.
  Proof.
    intros Hps Hch Hc. pose proof (feed_spec max chunks Hch) as F.
    destruct (feed max r_init chunks) as [[fs e] st]. cbn [fst snd].
    destruct (parse_stream max (concat chunks)) as [[fs' e'] rest] eqn:P.
    destruct F as (F1 & F2 & _). subst fs' e'.
    pose proof (parse_app max (concat chunks) later fs e rest P) as A.
    rewrite Hc, (parse_send_stream ps Hps) in A.
    destruct e as [err|].
    - discriminate A.
    - destruct (parse_stream max (rest ++ later)) as [[fs2 e2] r2]. injection A as A1 A2 A3.
      split; [reflexivity|]. exists fs2. symmetry. exact A1.
  Qed.

  (* the first side condition is necessary: an over-long payload is refused however it is cut *)
  Theorem send_oversize_refused p b : max < N.of_nat (length p) -> N.of_nat (length p) < 2 ^ 32 ->
    parse_stream max (send_frame p ++ b) = ([], Some TooLong, send_frame p ++ b).
  Proof.
    intros Hmax H32. unfold send_frame. rewrite <- !app_assoc.
    rewrite parse_hdr by apply be_enc_length.
    rewrite be_dec_enc by (rewrite pow256_4; exact H32).
    replace (max <? N.of_nat (length p)) with true by lia. reflexivity.
  Qed.
End Sender.

(* the premises are satisfiable, and the model computes *)
Example send_receive_example :
  feed 100 r_init [[77;65]; [74;73;0;0;0;3;1;2]; [3;77;65;74;73;0;0;0;2;9;8]] = ([[1;2;3];[9;8]], None, r_init)
  /\ send_stream [[1;2;3];[9;8]] = concat [[77;65]; [74;73;0;0;0;3;1;2]; [3;77;65;74;73;0;0;0;2;9;8]].
Proof. split; vm_compute; reflexivity. Qed.
