(* The sending side of the stream framing (networking/remote_peer.py ConnectedRemotePeer.send_message:
   MAGIC + struct.pack(">I", len(data)) + data, appended to the connection's send buffer) composed with the receiver
   of model/Framing.v: whatever sequence of payloads one side sends, and however the transport cuts the resulting
   byte stream into reads, the other side's MessageReceiver hands exactly that sequence of payloads to
   handle_message_data, raises nothing, and is left in a state that stands for no pending byte.

   Side conditions, both necessary: a payload longer than MAX_MESSAGE_SIZE is refused by the receiver (TooLong,
   [send_oversize_refused]); a length >= 2^32 cannot be packed by the sender (struct.error in the implementation). *)
From Coq Require Import NArith List Lia ZArith Bool Arith.
From Coq Require Import ZifyBool ZifyN ZifyNat.
From SkV Require Import Bytes Framing CodecProofs FramingProofs.
Import ListNotations.
Open Scope N_scope.
Ltac Zify.zify_post_hook ::= Z.to_euclidean_division_equations.

Definition sendable (max : N) (p : bytes) : Prop :=
  bytes_wf p /\ N.of_nat (length p) <= max /\ N.of_nat (length p) < 2 ^ 32.

Lemma pow256_4 : 256 ^ N.of_nat 4 = 2 ^ 32.   Proof. reflexivity. Qed.

Lemma send_frame_wf p : bytes_wf p -> bytes_wf (send_frame p).
Proof.
  intros H. unfold send_frame. apply wf_app; [|apply wf_app; [apply be_enc_wf|exact H]].
  unfold MAGIC, bytes_wf. repeat constructor.
Qed.

Lemma send_stream_wf ps : Forall bytes_wf ps -> bytes_wf (send_stream ps).
Proof.
  induction 1 as [|p ps Hp _ IH]; [constructor|].
  unfold send_stream. cbn [map concat]. apply wf_app; [apply send_frame_wf; exact Hp|exact IH].
Qed.

Section Sender.
  Variable max : N.

  Lemma parse_send_frame_app p b : sendable max p ->
    parse_stream max (send_frame p ++ b) =
      let '(fs, e, rest) := parse_stream max b in (p :: fs, e, rest).
  Proof.
    intros (Hwf & Hmax & H32). unfold send_frame. rewrite <- !app_assoc.
    rewrite parse_hdr by apply be_enc_length.
    rewrite be_dec_enc by (rewrite pow256_4; exact H32).
    replace (max <? N.of_nat (length p)) with false by lia.
    rewrite Nat2N.id.
    replace (length (p ++ b) <? length p)%nat with false by (rewrite app_length; lia).
    rewrite skipn_app_le, firstn_app_le by lia.
    rewrite skipn_all, firstn_all. reflexivity.
  Qed.

  Theorem parse_send_stream ps : Forall (sendable max) ps ->
    parse_stream max (send_stream ps) = (ps, None, []).
  Proof.
    induction 1 as [|p ps Hp _ IH].
    - reflexivity.
    - unfold send_stream. cbn [map concat]. rewrite parse_send_frame_app by exact Hp.
      fold (send_stream ps). rewrite IH. reflexivity.
  Qed.

  (* a complete stream followed by a partial next frame: the complete ones are delivered, nothing is refused *)
  Theorem parse_send_stream_app ps tail : Forall (sendable max) ps ->
    parse_stream max (send_stream ps ++ tail) =
      let '(fs, e, rest) := parse_stream max tail in (ps ++ fs, e, rest).
  Proof.
    induction 1 as [|p ps Hp _ IH].
    - cbn [send_stream map concat app]. destruct (parse_stream max tail) as [[fs e] r]. reflexivity.
    - unfold send_stream. cbn [map concat]. rewrite <- app_assoc. rewrite parse_send_frame_app by exact Hp.
      fold (send_stream ps). rewrite IH. destruct (parse_stream max tail) as [[fs e] r]. reflexivity.
  Qed.

  (* end to end, for EVERY fragmentation of the sent stream into reads *)
  Theorem send_receive ps chunks : Forall (sendable max) ps -> Forall bytes_wf chunks ->
    concat chunks = send_stream ps ->
    fst (fst (feed max r_init chunks)) = ps /\
    snd (fst (feed max r_init chunks)) = None /\
    pending (snd (feed max r_init chunks)) = [].
  Proof.
    intros Hps Hch Hc. pose proof (feed_spec max chunks Hch) as F. rewrite Hc, (parse_send_stream ps Hps) in F.
    destruct (feed max r_init chunks) as [[fs e] st]. cbn [fst snd].
    destruct F as (F1 & F2 & F3). subst fs e. repeat split. apply F3. reflexivity.
  Qed.

  (* every PREFIX of the sent stream (the connection so far): a prefix of the payloads has been delivered, in order,
     nothing refused *)
  Theorem send_receive_prefix ps chunks later : Forall (sendable max) ps -> Forall bytes_wf chunks ->
    concat chunks ++ later = send_stream ps ->
    snd (fst (feed max r_init chunks)) = None /\
    exists more, fst (fst (feed max r_init chunks)) ++ more = ps.
  Proof.
    intros Hps Hch Hc. pose proof (feed_spec max chunks Hch) as F.
    destruct (feed max r_init chunks) as [[fs e] st]. cbn [fst snd].
    destruct (parse_stream max (concat chunks)) as [[fs' e'] rest] eqn:P.
    destruct F as (F1 & F2 & _). subst fs' e'.
    pose proof (parse_app max (concat chunks) later fs e rest P) as A.
    rewrite Hc, (parse_send_stream ps Hps) in A.
    destruct e as [err|].
    - discriminate A.
    - destruct (parse_stream max (rest ++ later)) as [[fs2 e2] r2]. injection A as A1 A2 A3.
      split; [reflexivity|]. exists fs2. symmetry. exact A1.
  Qed.

  (* the first side condition is necessary: an over-long payload is refused however it is cut *)
  Theorem send_oversize_refused p b : max < N.of_nat (length p) -> N.of_nat (length p) < 2 ^ 32 ->
    parse_stream max (send_frame p ++ b) = ([], Some TooLong, send_frame p ++ b).
  Proof.
    intros Hmax H32. unfold send_frame. rewrite <- !app_assoc.
    rewrite parse_hdr by apply be_enc_length.
    rewrite be_dec_enc by (rewrite pow256_4; exact H32).
    replace (max <? N.of_nat (length p)) with true by lia. reflexivity.
  Qed.
End Sender.

(* the premises are satisfiable, and the model computes *)
Example send_receive_example :
  feed 100 r_init [[77;65]; [74;73;0;0;0;3;1;2]; [3;77;65;74;73;0;0;0;2;9;8]] = ([[1;2;3];[9;8]], None, r_init)
  /\ send_stream [[1;2;3];[9;8]] = concat [[77;65]; [74;73;0;0;0;3;1;2]; [3;77;65;74;73;0;0;0;2;9;8]].
Proof. split; vm_compute; reflexivity. Qed.

(* ================= the sender's state machine (send_buffer / send_backlog / writability) ================= *)
Lemma send_stream_snoc ps p : send_stream (ps ++ [p]) = send_stream ps ++ send_frame p.
Proof. unfold send_stream. rewrite map_app, concat_app. cbn [map concat]. rewrite app_nil_r. reflexivity. Qed.

Lemma send_frame_nonempty p : send_frame p <> [].
Proof. unfold send_frame, MAGIC. discriminate. Qed.

Record SInv (st : sstate) (sent : list bytes) : Prop := {
  si_stream : s_written st ++ s_buf st ++ concat (s_backlog st) = send_stream sent;
  si_nobuf : s_buf st = [] -> s_backlog st = [];
  si_writing : s_buf st <> [] -> s_writing st = true;
  si_backlog : Forall (fun x => x <> []) (s_backlog st) }.

Lemma SInv_init : SInv s_init [].
Proof. constructor; cbn; auto; congruence. Qed.

Lemma SInv_send st sent p : SInv st sent -> SInv (s_send st p) (sent ++ [p]).
Proof.
  intros [H1 H2 H3 H4]. unfold s_send. destruct (s_buf st) as [|b0 bs] eqn:Eb.
  - rewrite (H2 eq_refl) in *. cbn [app]. constructor; cbn [s_written s_buf s_backlog s_writing concat].
    + rewrite send_stream_snoc, <- H1. cbn [concat app]. rewrite !app_nil_r. reflexivity.
    + reflexivity.
    + reflexivity.
    + constructor.
  - constructor; cbn [s_written s_buf s_backlog s_writing].
    + rewrite send_stream_snoc, <- H1, concat_app. cbn [concat]. rewrite app_nil_r, <- !app_assoc. reflexivity.
    + discriminate.
    + intros _. apply H3. discriminate.
    + apply Forall_app. split; [exact H4|]. constructor; [apply send_frame_nonempty|constructor].
Qed.

Lemma SInv_can_send st sent n : SInv st sent -> SInv (s_can_send st n) sent.
Proof.
  intros [H1 H2 H3 H4]. unfold s_can_send.
  set (k := Nat.min n (length (s_buf st))).
  assert (Hsplit : s_buf st = firstn k (s_buf st) ++ skipn k (s_buf st)) by (symmetry; apply firstn_skipn).
  destruct (skipn k (s_buf st)) as [|c cs] eqn:Es.
  - rewrite app_nil_r in Hsplit. destruct (s_backlog st) as [|x rest] eqn:Ebl.
    + constructor; cbn [s_written s_buf s_backlog s_writing concat].
      * rewrite <- H1. cbn [concat]. rewrite !app_nil_r. rewrite <- Hsplit. reflexivity.
      * reflexivity.
      * congruence.
      * constructor.
    + inversion H4 as [|x' r' Hx Hr]; subst.
      constructor; cbn [s_written s_buf s_backlog s_writing].
      * rewrite <- H1. cbn [concat]. rewrite <- Hsplit, <- !app_assoc. reflexivity.
      * intros E. contradiction.
      * intros _. apply H3. intros E. apply H2 in E. discriminate.
      * exact Hr.
  - constructor; cbn [s_written s_buf s_backlog s_writing].
    + rewrite <- H1. rewrite Hsplit at 2. rewrite <- !app_assoc. reflexivity.
    + discriminate.
    + intros _. apply H3. intros E. rewrite E in Es. rewrite skipn_nil in Es. discriminate.
    + exact H4.
Qed.

Lemma SInv_run_gen ops : forall st sent, SInv st sent -> SInv (fold_left s_step ops st) (sent ++ sent_of ops).
Proof.
  induction ops as [|o ops IH]; intros st sent H; cbn [fold_left sent_of].
  - rewrite app_nil_r. exact H.
  - destruct o as [p|n]; cbn [s_step].
    + replace (sent ++ p :: sent_of ops) with ((sent ++ [p]) ++ sent_of ops) by (rewrite <- app_assoc; reflexivity).
      apply IH, SInv_send, H.
    + apply IH, SInv_can_send, H.
Qed.

(* every reachable sender state, for every interleaving of send_message calls and socket writes of any sizes *)
Theorem sender_invariant ops : SInv (s_run ops) (sent_of ops).
Proof. apply (SInv_run_gen ops s_init [] SInv_init). Qed.

(* what has been written is always a prefix of the stream of everything sent; once the sender no longer asks for
   writability, it is all of it *)
Theorem sender_written_prefix ops :
  exists later, s_written (s_run ops) ++ later = send_stream (sent_of ops).
Proof. destruct (sender_invariant ops) as [H _ _ _]. eexists. exact H. Qed.

Theorem sender_drained ops : s_writing (s_run ops) = false ->
  s_written (s_run ops) = send_stream (sent_of ops) /\ s_buf (s_run ops) = [] /\ s_backlog (s_run ops) = [].
Proof.
  destruct (sender_invariant ops) as [H1 H2 H3 _]. intros Hw.
  destruct (s_buf (s_run ops)) as [|b bs] eqn:Eb.
  - rewrite (H2 eq_refl) in *. cbn [concat app] in H1. rewrite app_nil_r in H1. auto.
  - assert (s_writing (s_run ops) = true) by (apply H3; discriminate). congruence.
Qed.

(* progress: a socket that takes at least one byte moves the written stream forward whenever anything is queued,
   so draining terminates after at most |stream| writable events *)
Theorem sender_progress ops n : (1 <= n)%nat -> s_buf (s_run ops) <> [] ->
  (length (s_written (s_run ops)) < length (s_written (s_can_send (s_run ops) n)))%nat.
Proof.
  intros Hn Hb. unfold s_can_send. set (st := s_run ops) in *.
  assert (Hl : (1 <= length (s_buf st))%nat) by (destruct (s_buf st); [congruence|cbn; lia]).
  assert (Hk : (1 <= length (firstn (Nat.min n (length (s_buf st))) (s_buf st)))%nat)
    by (rewrite firstn_length; lia).
  destruct (skipn _ (s_buf st)); [destruct (s_backlog st)|]; cbn [s_written]; rewrite app_length; lia.
Qed.

Section SenderReceiver.
  Variable max : N.
  (* sender state machine and receiver composed: however send_message calls and socket writes interleave, and however
     the transport re-cuts what was written, the other side has received a prefix of the messages sent, in order,
     and has refused nothing; when the sender has stopped asking for writability it has received all of them *)
  Theorem sender_receiver_prefix ops chunks : Forall (sendable max) (sent_of ops) -> Forall bytes_wf chunks ->
    concat chunks = s_written (s_run ops) ->
    snd (fst (feed max r_init chunks)) = None /\
    exists more, fst (fst (feed max r_init chunks)) ++ more = sent_of ops.
  Proof.
    intros Hs Hc E. destruct (sender_written_prefix ops) as [later Hl]. rewrite <- E in Hl.
    exact (send_receive_prefix max (sent_of ops) chunks later Hs Hc Hl).
  Qed.

  Theorem sender_receiver_complete ops chunks : Forall (sendable max) (sent_of ops) -> Forall bytes_wf chunks ->
    concat chunks = s_written (s_run ops) -> s_writing (s_run ops) = false ->
    fst (fst (feed max r_init chunks)) = sent_of ops /\
    snd (fst (feed max r_init chunks)) = None /\
    pending (snd (feed max r_init chunks)) = [].
  Proof.
    intros Hs Hc E Hw. destruct (sender_drained ops Hw) as [Hd _]. rewrite Hd in E.
    exact (send_receive max (sent_of ops) chunks Hs Hc E).
  Qed.
End SenderReceiver.

Example sender_example :
  let st := s_run [OSend [1;2]; OSend [3]; OCanSend 3; OSend []; OCanSend 100; OCanSend 4; OCanSend 9; OCanSend 8] in
  s_writing st = false /\ s_written st = send_stream [[1;2]; [3]; []].
Proof. vm_compute. split; reflexivity. Qed.
