(* Per-key balances are exactly the unspent set grouped by key (std++ style).

   Main results:
     consistent_delete, consistent_insert   single-step lemmas (i) and (ii)
     tx_ok, txs_ok, block_ok                per-transaction / per-block preservation (+ success of both folds)
     uto_apply_block_succeeds               sanity: premises (a)+(b) make the unspent-set update succeed
     balances_consistent                    the chain theorem
     replay_total                           bonus: a well-formed chain of non-empty blocks replays successfully
     fresh_block_wf,
     balances_consistent_fresh_only         sharpening: given that the replay succeeded, only freshness (c) is needed
     Example.example_wf / example_replay / example_balances    non-vacuity
     Example.freshness_needed               freshness cannot be dropped (colliding hash => wrong balances) *)
From stdpp Require Import gmap.
From Coq Require Import ZArith NArith Lia.
From SkV Require Import Bytes Codec Ledger.

(* ------------------------------------------------------------------------------------------------ *)
(* generic list facts                                                                               *)

Lemma filter_all_id {A} (P : A → Prop) `{∀ x, Decision (P x)} (l : list A) :
  Forall P l → filter P l = l.
Proof.
  induction 1 as [|x l Hx Hl IH]; [done|].
  rewrite filter_cons, decide_True by done. by rewrite IH.
Qed.

Lemma NoDup_fst_filter {A B} (P : A * B → Prop) `{∀ x, Decision (P x)} (l : list (A * B)) :
  NoDup l.*1 → NoDup (filter P l).*1.
Proof.
  induction l as [|[a b] l IH]; [done|].
  rewrite fmap_cons, NoDup_cons. cbn [fst]. intros [Hnot Hnd].
  rewrite filter_cons. destruct (decide (P (a, b))); [|by apply IH].
  rewrite fmap_cons, NoDup_cons. cbn [fst]. split; [|by apply IH].
  intros Hin. apply Hnot.
  apply elem_of_list_fmap in Hin as [[a' b'] [Heq Hin]]. cbn [fst] in Heq. subst a'.
  apply elem_of_list_filter in Hin as [_ Hin].
  apply elem_of_list_fmap. by exists (a, b').
Qed.

(* ------------------------------------------------------------------------------------------------ *)
(* the specification                                                                                *)

(* total value of a list of (reference, output) pairs *)
Definition sumv (l : list (refkey * output)) : Z :=
  foldr (λ ro acc, (Z.of_N (out_value ro.2) + acc)%Z) 0%Z l.

Lemma sumv_perm l1 l2 : l1 ≡ₚ l2 → sumv l1 = sumv l2.
Proof. induction 1; unfold sumv in *; cbn [foldr]; lia. Qed.

Lemma sumv_cons r o l : sumv ((r, o) :: l) = (Z.of_N (out_value o) + sumv l)%Z.
Proof. done. Qed.

(* the unspent outputs paying key [pk] *)
Definition pays (pk : bytes) (u : utxo) : list (refkey * output) :=
  filter (λ ro, out_pk ro.2 = pk) (map_to_list u).

Definition consistent (u : utxo) (p : pkbal) : Prop :=
  (∀ pk v refs, p !! pk = Some (v, refs) →
     v = sumv (pays pk u) ∧ refs ≡ₚ (pays pk u).*1)
  ∧ (∀ r o, u !! r = Some o → is_Some (p !! out_pk o)).

Lemma pays_elem pk u r o : (r, o) ∈ pays pk u ↔ u !! r = Some o ∧ out_pk o = pk.
Proof.
  unfold pays. rewrite elem_of_list_filter. cbn [snd].
  split; [intros [? ?%elem_of_map_to_list]|intros [?%elem_of_map_to_list ?]]; done.
Qed.

Lemma pays_keys_NoDup pk u : NoDup (pays pk u).*1.
Proof. apply NoDup_fst_filter, NoDup_fst_map_to_list. Qed.

Lemma pays_key_elem pk u r : r ∈ (pays pk u).*1 → is_Some (u !! r).
Proof.
  intros Hin. apply elem_of_list_fmap in Hin as [[r' o] [Heq Hin]]. cbn [fst] in Heq. subst r'.
  apply pays_elem in Hin as [Hl _]. by exists o.
Qed.

Lemma pays_insert pk u k o :
  u !! k = None →
  pays pk (<[k:=o]> u) ≡ₚ if decide (out_pk o = pk) then (k, o) :: pays pk u else pays pk u.
Proof.
  intros Hk. unfold pays. rewrite (map_to_list_insert u k o Hk), filter_cons. cbn [snd].
  by destruct (decide (out_pk o = pk)).
Qed.

Lemma pays_delete pk u k o :
  u !! k = Some o →
  pays pk u ≡ₚ if decide (out_pk o = pk) then (k, o) :: pays pk (delete k u) else pays pk (delete k u).
Proof.
  intros Hk. unfold pays. rewrite <- (map_to_list_delete u k o Hk) at 1. rewrite filter_cons. cbn [snd].
  by destruct (decide (out_pk o = pk)).
Qed.

(* [utxo] and [pkbal] are constants hiding [gmap _ _]; rewriting with the finite-map lemmas needs them unfolded *)
Local Ltac unf := unfold utxo, pkbal in *.

(* consequences of [consistent] *)
Lemma consistent_NoDup u p pk v refs : consistent u p → p !! pk = Some (v, refs) → NoDup refs.
Proof.
  intros [H1 _] Hp. destruct (H1 _ _ _ Hp) as [_ Hrefs].
  rewrite Hrefs. apply pays_keys_NoDup.
Qed.

Lemma consistent_absent u p pk : consistent u p → p !! pk = None → pays pk u = [].
Proof.
  intros [_ H2] Hp. destruct (pays pk u) as [|[r o] l] eqn:E; [done|].
  assert (Hin : (r, o) ∈ pays pk u) by (rewrite E; left).
  apply pays_elem in Hin as [Hl <-]. apply H2 in Hl. rewrite Hp in Hl. by destruct Hl.
Qed.

Lemma consistent_default u p pk v refs :
  consistent u p → default (0%Z, []) (p !! pk) = (v, refs) →
  v = sumv (pays pk u) ∧ refs ≡ₚ (pays pk u).*1.
Proof.
  intros Hc Hd. destruct (p !! pk) as [[v' refs']|] eqn:Hp; cbn [default] in Hd.
  - injection Hd as -> ->. by apply (proj1 Hc).
  - injection Hd as <- <-. by rewrite (consistent_absent _ _ _ Hc Hp).
Qed.

Lemma consistent_empty : consistent ∅ ∅.
Proof. split; [intros pk v refs H|intros r o H]; unf; by rewrite lookup_empty in H. Qed.

(* ------------------------------------------------------------------------------------------------ *)
(* (i) spending one present output                                                                  *)

Lemma consistent_delete u p r o v refs :
  consistent u p → u !! r = Some o → p !! out_pk o = Some (v, refs) →
  consistent (delete r u)
             (<[out_pk o := ((v - Z.of_N (out_value o))%Z, filter (λ k, k ≠ r) refs)]> p).
Proof.
  intros [H1 H2] Hr Hp. split.
  - intros pk v' refs' Hl. unf. destruct (decide (out_pk o = pk)) as [<-|Hne].
    + rewrite lookup_insert in Hl. injection Hl as <- <-.
      destruct (H1 _ _ _ Hp) as [Hv Hrefs].
      pose proof (pays_delete (out_pk o) u r o Hr) as HP. rewrite decide_True in HP by done. unf.
      split.
      * rewrite Hv, (sumv_perm _ _ HP), sumv_cons. unf. lia.
      * rewrite Hrefs, HP, fmap_cons, filter_cons. cbn [fst].
        rewrite decide_False by (intros Hc; by apply Hc).
        rewrite filter_all_id; [done|].
        apply Forall_forall. intros k Hk ->.
        apply pays_key_elem in Hk. unf. rewrite lookup_delete in Hk. by destruct Hk.
    + rewrite lookup_insert_ne in Hl by done.
      destruct (H1 _ _ _ Hl) as [Hv Hrefs].
      pose proof (pays_delete pk u r o Hr) as HP. rewrite decide_False in HP by done. unf.
      split; [by rewrite Hv, (sumv_perm _ _ HP) | by rewrite Hrefs, HP].
  - intros r' o' Hl. unf. apply lookup_delete_Some in Hl as [_ Hl]. apply H2 in Hl.
    apply lookup_insert_is_Some. destruct (decide (out_pk o = out_pk o')); [by left | by right].
Qed.

(* (ii) creating one fresh output                                                                   *)

Lemma consistent_insert u p k o v refs :
  consistent u p → u !! k = None → default (0%Z, []) (p !! out_pk o) = (v, refs) →
  consistent (<[k:=o]> u)
             (<[out_pk o := ((v + Z.of_N (out_value o))%Z, refs ++ [k])]> p).
Proof.
  intros Hc Hk Hd. destruct (consistent_default _ _ _ _ _ Hc Hd) as [Hv Hrefs].
  destruct Hc as [H1 H2]. split.
  - intros pk v' refs' Hl. unf. destruct (decide (out_pk o = pk)) as [<-|Hne].
    + rewrite lookup_insert in Hl. injection Hl as <- <-.
      pose proof (pays_insert (out_pk o) u k o Hk) as HP. rewrite decide_True in HP by done. unf.
      split.
      * rewrite Hv, (sumv_perm _ _ HP), sumv_cons. unf. lia.
      * rewrite HP, fmap_cons. cbn [fst]. rewrite Hrefs.
        symmetry. apply Permutation_cons_append.
    + rewrite lookup_insert_ne in Hl by done.
      destruct (H1 _ _ _ Hl) as [Hv' Hrefs'].
      pose proof (pays_insert pk u k o Hk) as HP. rewrite decide_False in HP by done. unf.
      split; [by rewrite Hv', (sumv_perm _ _ HP) | by rewrite Hrefs', HP].
  - intros r' o' Hl. unf. apply lookup_insert_is_Some.
    destruct (decide (out_pk o = out_pk o')) as [|Hne]; [by left|right; split; [done|]].
    apply lookup_insert_Some in Hl as [[_ <-]|[_ Hl]]; [done|]. by apply (H2 _ _ Hl).
Qed.

(* ------------------------------------------------------------------------------------------------ *)
(* keys consumed / created by transactions                                                          *)

Definition in_key (i : input) : refkey := ref_key (in_ref i).
Definition tx_in_keys (t : tx) : list refkey := in_key <$> tx_inputs t.
Fixpoint txs_in_keys (ts : list tx) : list refkey :=
  match ts with [] => [] | t :: r => tx_in_keys t ++ txs_in_keys r end.

(* the keys under which [add_outputs id i outs] / [pkb_add id i outs] insert *)
Fixpoint out_keys (id : bytes) (i : N) (outs : list output) : list refkey :=
  match outs with [] => [] | _ :: r => (id, i) :: out_keys id (i + 1) r end.

Section Proofs.
  Variable sha : bytes → bytes.

  Definition tx_out_keys (t : tx) : list refkey := out_keys (tx_id sha t) 0 (tx_outputs t).
  Fixpoint txs_out_keys (ts : list tx) : list refkey :=
    match ts with [] => [] | t :: r => tx_out_keys t ++ txs_out_keys r end.

  (* What a fully validated block [b] guarantees relative to the unspent set [u0] it is applied to.
     (a) wfb_in_present: every input of every non-reward transaction refers to an output that is unspent at the
         START of the block (validation looks references up in the block-start set; in particular no transaction
         spends an output created inside the same block).  Needed: otherwise [spend_inputs]/[pkb_spend] fail, and
         [pkb_spend] (reading the block-start set) and [spend_inputs] (reading the running set) could disagree.
     (b) wfb_in_NoDup: no reference is spent twice inside the block.  Needed: [pkb_spend] reads the block-start
         set and so would happily subtract the same output twice.
     (c) wfb_out_fresh / wfb_out_NoDup: the keys (tx_id t, i) created by the block are not already unspent and are
         pairwise distinct ("transaction ids do not repeat while an output is unspent").  Needed: inserting over an
         existing key silently drops the old output from the unspent set while its value and reference stay in the
         balance of its key.  In the real system this follows from collision-freedom of the hash and the height in
         the reward transaction; here it is an explicit premise.
         The premise is stated statically against the block-start set; this is marginally stronger than "absent at
         the moment of insertion" (it also excludes re-creating, later in the same block, a key that the block
         itself spent earlier), and is what uniqueness of transaction ids gives anyway.
     No premise on the reward transaction's inputs (they are ignored), on values, or on signatures is needed.
     (a) and (b) are what makes the replay succeed; once the replay is KNOWN to have succeeded they are forced
     (see [fresh_block_wf], [balances_consistent_fresh_only] below), so only (c) is a genuine assumption of the
     consistency theorem. *)
  Record wf_block (u0 : utxo) (b : block) : Prop := {
    wfb_in_present : Forall (λ k, is_Some (u0 !! k)) (txs_in_keys (tail (b_txs b)));
    wfb_in_NoDup   : NoDup (txs_in_keys (tail (b_txs b)));
    wfb_out_fresh  : Forall (λ k, u0 !! k = None) (txs_out_keys (b_txs b));
    wfb_out_NoDup  : NoDup (txs_out_keys (b_txs b));
  }.

  (* the per-block premises, threaded along the unspent sets the replay itself computes *)
  Fixpoint wf_from (u : utxo) (chain : list block) : Prop :=
    match chain with
    | [] => True
    | b :: r => wf_block u b ∧
                match uto_apply_block sha u b with
                | Some u1 => wf_from u1 r
                | None => True
                end
    end.
  Definition well_formed_chain (chain : list block) : Prop := wf_from ∅ chain.

  (* ---------------------------------------------------------------------------------------------- *)
  (* creating the outputs of one transaction                                                        *)

  Lemma add_outputs_lookup_ne id outs : ∀ i u k,
    k ∉ out_keys id i outs → add_outputs id i outs u !! k = u !! k.
  Proof.
    induction outs as [|o outs IH]; intros i u k Hk; cbn [add_outputs out_keys] in *; [done|].
    apply not_elem_of_cons in Hk as [Hne Hk].
    rewrite IH by done. unf. by rewrite lookup_insert_ne.
  Qed.

  Lemma add_ok id outs : ∀ i u p,
    consistent u p →
    Forall (λ k, u !! k = None) (out_keys id i outs) → NoDup (out_keys id i outs) →
    consistent (add_outputs id i outs u) (pkb_add id i outs p).
  Proof.
    induction outs as [|o outs IH]; intros i u p Hc Hfresh Hnd; cbn [add_outputs pkb_add out_keys] in *; [done|].
    apply Forall_cons in Hfresh as [Hk Hfresh]. apply NoDup_cons in Hnd as [Hnotin Hnd].
    destruct (default (0%Z, []) (p !! out_pk o)) as [v refs] eqn:Hd.
    apply IH; [by apply consistent_insert | | done].
    apply Forall_forall. intros k' Hk'. unf.
    rewrite lookup_insert_ne by (intros <-; done).
    by apply (proj1 (Forall_forall _ _) Hfresh).
  Qed.

  (* ---------------------------------------------------------------------------------------------- *)
  (* spending the inputs of one transaction                                                         *)

  (* the running unspent set [uk] still holds every pending input, with the output it had at block start *)
  Definition agree (u0 uk : utxo) (ks : list refkey) : Prop :=
    Forall (λ k, is_Some (u0 !! k) ∧ uk !! k = u0 !! k) ks.

  Lemma spend_ok u0 ins : ∀ uk p pend,
    NoDup ((in_key <$> ins) ++ pend) → agree u0 uk ((in_key <$> ins) ++ pend) → consistent uk p →
    ∃ u' p', spend_inputs ins uk = Some u' ∧ pkb_spend u0 ins p = Some p' ∧
             consistent u' p' ∧ agree u0 u' pend ∧ (∀ k, uk !! k = None → u' !! k = None).
  Proof.
    induction ins as [|i ins IH]; intros uk p pend Hnd Hag Hc; cbn [fmap list_fmap app] in *.
    { exists uk, p. by cbn. }
    apply NoDup_cons in Hnd as [Hnotin Hnd].
    apply Forall_cons in Hag as [[[o Ho] Hk] Hag].
    rewrite Ho in Hk.
    destruct (proj2 Hc _ _ Hk) as [[v refs] Hp].
    cbn [spend_inputs pkb_spend]. fold (in_key i). rewrite Hk, Ho, Hp.
    destruct (IH (delete (in_key i) uk)
                 (<[out_pk o := ((v - Z.of_N (out_value o))%Z, filter (λ k, k ≠ in_key i) refs)]> p)
                 pend Hnd) as (u' & p' & Hs & Hps & Hc' & Hag' & Hnone).
    - apply Forall_forall. intros k Hin.
      destruct (proj1 (Forall_forall _ _) Hag k Hin) as [Hs Heq].
      split; [done|]. unf. rewrite lookup_delete_ne; [done|]. by intros <-.
    - by apply consistent_delete.
    - exists u', p'. split_and!; try done.
      intros k Hn. apply Hnone. unf. apply lookup_delete_None. by right.
  Qed.

  (* ---------------------------------------------------------------------------------------------- *)
  (* one transaction                                                                                *)

  (* [fresh u0 uk ks]: the keys [ks] (still to be created) are absent from the block-start and the running set *)
  Definition fresh (u0 uk : utxo) (ks : list refkey) : Prop :=
    Forall (λ k, u0 !! k = None ∧ uk !! k = None) ks.

  Lemma tx_ok u0 (cb : bool) t uk p pend futout :
    let ins := if cb then [] else tx_in_keys t in
    NoDup (ins ++ pend) → agree u0 uk (ins ++ pend) →
    NoDup (tx_out_keys t ++ futout) → fresh u0 uk (tx_out_keys t ++ futout) →
    consistent uk p →
    ∃ u' p', uto_apply_tx sha uk t cb = Some u' ∧ pkb_apply_tx sha u0 p t cb = Some p' ∧
             consistent u' p' ∧ agree u0 u' pend ∧ fresh u0 u' futout.
  Proof.
    intros ins Hnd Hag Hond Hfr Hc.
    assert (Hspend : ∃ u1 p1,
      (if cb then Some uk else spend_inputs (tx_inputs t) uk) = Some u1 ∧
      (if cb then Some p else pkb_spend u0 (tx_inputs t) p) = Some p1 ∧
      consistent u1 p1 ∧ agree u0 u1 pend ∧ (∀ k, uk !! k = None → u1 !! k = None)).
    { subst ins. destruct cb.
      - exists uk, p. by cbn.
      - by apply spend_ok. }
    destruct Hspend as (u1 & p1 & Hs & Hps & Hc1 & Hag1 & Hnone).
    unfold uto_apply_tx, pkb_apply_tx. rewrite Hs, Hps.
    eexists _, _. split; [done|]. split; [done|].
    apply NoDup_app in Hond as (Hond1 & Hdisj & Hond2).
    apply Forall_app in Hfr as [Hfr1 Hfr2].
    split; [|split].
    - apply add_ok; [done| |done].
      apply Forall_forall. intros k Hk. apply Hnone.
      by apply (proj1 (Forall_forall _ _) Hfr1).
    - apply Forall_forall. intros k Hk.
      destruct (proj1 (Forall_forall _ _) Hag1 k Hk) as [Hsome Heq].
      split; [done|]. fold (tx_out_keys t). rewrite add_outputs_lookup_ne; [done|].
      intros Hin. destruct (proj1 (Forall_forall _ _) Hfr1 k Hin) as [Hn _].
      rewrite Hn in Hsome. by destruct Hsome.
    - apply Forall_forall. intros k Hk.
      destruct (proj1 (Forall_forall _ _) Hfr2 k Hk) as [Hn0 Hnk].
      split; [done|]. fold (tx_out_keys t). rewrite add_outputs_lookup_ne; [by apply Hnone|].
      intros Hin. by apply (Hdisj k Hin).
  Qed.

  (* the non-reward transactions of a block *)
  Lemma txs_ok u0 ts : ∀ uk p,
    NoDup (txs_in_keys ts) → agree u0 uk (txs_in_keys ts) →
    NoDup (txs_out_keys ts) → fresh u0 uk (txs_out_keys ts) →
    consistent uk p →
    ∃ u' p', uto_apply_txs sha uk ts = Some u' ∧ pkb_apply_txs sha u0 p ts = Some p' ∧ consistent u' p'.
  Proof.
    induction ts as [|t ts IH]; intros uk p Hnd Hag Hond Hfr Hc; cbn [txs_in_keys txs_out_keys] in *.
    { exists uk, p. by cbn. }
    destruct (tx_ok u0 false t uk p (txs_in_keys ts) (txs_out_keys ts) Hnd Hag Hond Hfr Hc)
      as (u1 & p1 & Hu & Hp & Hc1 & Hag1 & Hfr1).
    apply NoDup_app in Hnd as (_ & _ & Hnd). apply NoDup_app in Hond as (_ & _ & Hond).
    destruct (IH u1 p1 Hnd Hag1 Hond Hfr1 Hc1) as (u' & p' & Hu' & Hp' & Hc').
    exists u', p'. cbn [uto_apply_txs pkb_apply_txs]. by rewrite Hu, Hp.
  Qed.

  (* ---------------------------------------------------------------------------------------------- *)
  (* one block                                                                                      *)

  Theorem block_ok u0 p b :
    b_txs b ≠ [] → wf_block u0 b → consistent u0 p →
    ∃ u' p', uto_apply_block sha u0 b = Some u' ∧ pkb_apply_block sha u0 p b = Some p' ∧ consistent u' p'.
  Proof.
    intros Hne [Hin Hind Hout Houtd] Hc.
    unfold uto_apply_block, pkb_apply_block.
    destruct (b_txs b) as [|cb rest]; [done|]. cbn [tail txs_out_keys] in *.
    assert (Hag : agree u0 u0 (txs_in_keys rest)).
    { apply Forall_forall. intros k Hk. split; [|done]. by apply (proj1 (Forall_forall _ _) Hin). }
    assert (Hfr : fresh u0 u0 (tx_out_keys cb ++ txs_out_keys rest)).
    { apply Forall_forall. intros k Hk. split; by apply (proj1 (Forall_forall _ _) Hout). }
    destruct (tx_ok u0 true cb u0 p (txs_in_keys rest) (txs_out_keys rest) Hind Hag Houtd Hfr Hc)
      as (u1 & p1 & Hu & Hp & Hc1 & Hag1 & Hfr1).
    rewrite Hu, Hp.
    apply NoDup_app in Houtd as (_ & _ & Houtd).
    by apply txs_ok.
  Qed.

  (* ---------------------------------------------------------------------------------------------- *)
  (* sanity: premises (a)+(b) alone make the unspent-set update succeed                             *)

  Lemma spend_inputs_succeeds ins : ∀ uk pend,
    NoDup ((in_key <$> ins) ++ pend) → Forall (λ k, is_Some (uk !! k)) ((in_key <$> ins) ++ pend) →
    ∃ u', spend_inputs ins uk = Some u' ∧ Forall (λ k, is_Some (u' !! k)) pend.
  Proof.
    induction ins as [|i ins IH]; intros uk pend Hnd Hall; cbn [fmap list_fmap app] in *.
    { by exists uk. }
    apply NoDup_cons in Hnd as [Hnotin Hnd]. apply Forall_cons in Hall as [[o Ho] Hall].
    cbn [spend_inputs]. fold (in_key i). rewrite Ho.
    apply IH; [done|]. apply Forall_forall. intros k Hk. unf.
    rewrite lookup_delete_ne by (by intros <-).
    by apply (proj1 (Forall_forall _ _) Hall).
  Qed.

  Lemma add_outputs_is_Some id outs : ∀ i u k, is_Some (u !! k) → is_Some (add_outputs id i outs u !! k).
  Proof.
    induction outs as [|o outs IH]; intros i u k Hk; cbn [add_outputs]; [done|].
    apply IH. unf. apply lookup_insert_is_Some. destruct (decide ((id, i) = k)); [by left | by right].
  Qed.

  Lemma uto_apply_txs_succeeds ts : ∀ uk,
    NoDup (txs_in_keys ts) → Forall (λ k, is_Some (uk !! k)) (txs_in_keys ts) →
    is_Some (uto_apply_txs sha uk ts).
  Proof.
    induction ts as [|t ts IH]; intros uk Hnd Hall; cbn [txs_in_keys uto_apply_txs] in *; [done|].
    destruct (spend_inputs_succeeds (tx_inputs t) uk (txs_in_keys ts) Hnd Hall) as (u1 & Hs & Hall1).
    unfold uto_apply_tx. rewrite Hs.
    apply NoDup_app in Hnd as (_ & _ & Hnd).
    apply IH; [done|]. eapply Forall_impl; [exact Hall1|]. intros k. apply add_outputs_is_Some.
  Qed.

  Theorem uto_apply_block_succeeds u0 b :
    b_txs b ≠ [] →
    Forall (λ k, is_Some (u0 !! k)) (txs_in_keys (tail (b_txs b))) →   (* (a) *)
    NoDup (txs_in_keys (tail (b_txs b))) →                             (* (b) *)
    is_Some (uto_apply_block sha u0 b).
  Proof.
    intros Hne Hall Hnd. unfold uto_apply_block.
    destruct (b_txs b) as [|cb rest]; [done|]. cbn [tail uto_apply_tx] in *.
    apply uto_apply_txs_succeeds; [done|].
    eapply Forall_impl; [exact Hall|]. intros k. apply add_outputs_is_Some.
  Qed.

  (* ---------------------------------------------------------------------------------------------- *)
  (* chains                                                                                         *)

  Lemma replay_consistent chain : ∀ u p u' p',
    consistent u p → wf_from u chain → replay sha u p chain = Some (u', p') → consistent u' p'.
  Proof.
    induction chain as [|b chain IH]; intros u p u' p' Hc Hwf Hr; cbn [replay wf_from] in *.
    { by injection Hr as <- <-. }
    destruct Hwf as [Hb Hwf].
    destruct (decide (b_txs b = [])) as [He|Hne].
    { unfold pkb_apply_block in Hr. by rewrite He in Hr. }
    destruct (block_ok u p b Hne Hb Hc) as (u1 & p1 & Hu & Hp & Hc1).
    rewrite Hu in Hwf. rewrite Hu, Hp in Hr. by apply (IH u1 p1).
  Qed.

  Theorem balances_consistent chain u p :
    well_formed_chain chain → replay sha ∅ ∅ chain = Some (u, p) → consistent u p.
  Proof. intros Hwf Hr. by apply (replay_consistent chain ∅ ∅ u p consistent_empty Hwf). Qed.

  (* the NoDup half of the property, spelled out *)
  Corollary balances_refs_NoDup chain u p pk v refs :
    well_formed_chain chain → replay sha ∅ ∅ chain = Some (u, p) → p !! pk = Some (v, refs) → NoDup refs.
  Proof. intros Hwf Hr. eapply consistent_NoDup, balances_consistent; eauto. Qed.

  (* a key that is absent from the balances has no unspent output *)
  Corollary balances_absent chain u p pk :
    well_formed_chain chain → replay sha ∅ ∅ chain = Some (u, p) → p !! pk = None → pays pk u = [].
  Proof. intros Hwf Hr. eapply consistent_absent, balances_consistent; eauto. Qed.

  (* bonus: a well-formed chain whose blocks all have a reward transaction replays successfully *)
  Lemma replay_total_from chain : ∀ u p,
    consistent u p → wf_from u chain → Forall (λ b, b_txs b ≠ []) chain →
    is_Some (replay sha u p chain).
  Proof.
    induction chain as [|b chain IH]; intros u p Hc Hwf Hne; cbn [replay wf_from] in *; [done|].
    destruct Hwf as [Hb Hwf]. apply Forall_cons in Hne as [Hne1 Hne].
    destruct (block_ok u p b Hne1 Hb Hc) as (u1 & p1 & Hu & Hp & Hc1).
    rewrite Hu in Hwf. rewrite Hu, Hp. by apply IH.
  Qed.

  Theorem replay_total chain :
    well_formed_chain chain → Forall (λ b, b_txs b ≠ []) chain → is_Some (replay sha ∅ ∅ chain).
  Proof. intros. by apply replay_total_from; [apply consistent_empty| |]. Qed.
  (* ---------------------------------------------------------------------------------------------- *)
  (* Sharpening: for the consistency theorem (which ASSUMES that the replay returned a result), premises (a) and
     (b) are redundant: [pkb_spend] fails on a reference absent from the block-start set, which forces (a); and,
     given (a) and freshness, [spend_inputs] fails on a reference spent twice in the block, which forces (b).
     Only the freshness premise (c) cannot be observed from the success of the replay.  ((a) and (b) are still what
     makes the replay succeed: [replay_total], [uto_apply_block_succeeds].) *)

  Record fresh_block (u0 : utxo) (b : block) : Prop := {
    fb_out_fresh : Forall (λ k, u0 !! k = None) (txs_out_keys (b_txs b));
    fb_out_NoDup : NoDup (txs_out_keys (b_txs b));
  }.
  Fixpoint fresh_from (u : utxo) (chain : list block) : Prop :=
    match chain with
    | [] => True
    | b :: r => fresh_block u b ∧
                match uto_apply_block sha u b with
                | Some u1 => fresh_from u1 r
                | None => True
                end
    end.
  Definition fresh_chain (chain : list block) : Prop := fresh_from ∅ chain.

  Lemma wf_from_fresh chain : ∀ u, wf_from u chain → fresh_from u chain.
  Proof.
    induction chain as [|b chain IH]; intros u Hwf; cbn [wf_from fresh_from] in *; [done|].
    destruct Hwf as [[_ _ H3 H4] Hwf]. split; [by split|].
    destruct (uto_apply_block sha u b); [by apply IH|done].
  Qed.

  Lemma pkb_spend_present u0 ins : ∀ p p',
    pkb_spend u0 ins p = Some p' → Forall (λ k, is_Some (u0 !! k)) (in_key <$> ins).
  Proof.
    induction ins as [|i ins IH]; intros p p' Hs; cbn [fmap list_fmap pkb_spend] in *; [done|].
    fold (in_key i) in Hs.
    destruct (u0 !! in_key i) as [o|] eqn:Ho; [|done].
    destruct (p !! out_pk o) as [[v refs]|]; [|done].
    apply Forall_cons. split; [by exists o | by eapply IH].
  Qed.

  Lemma pkb_apply_txs_present u0 ts : ∀ p p',
    pkb_apply_txs sha u0 p ts = Some p' → Forall (λ k, is_Some (u0 !! k)) (txs_in_keys ts).
  Proof.
    induction ts as [|t ts IH]; intros p p' Hs; cbn [txs_in_keys pkb_apply_txs] in *; [done|].
    unfold pkb_apply_tx in Hs.
    destruct (pkb_spend u0 (tx_inputs t) p) as [p1|] eqn:Hp1; [|done].
    apply Forall_app. split; [by eapply pkb_spend_present | by eapply IH].
  Qed.

  Lemma spend_inputs_inv ins : ∀ uk u',
    spend_inputs ins uk = Some u' →
    NoDup (in_key <$> ins) ∧ Forall (λ k, is_Some (uk !! k)) (in_key <$> ins) ∧
    Forall (λ k, u' !! k = None) (in_key <$> ins) ∧ (∀ k, is_Some (u' !! k) → is_Some (uk !! k)).
  Proof.
    induction ins as [|i ins IH]; intros uk u' Hs; cbn [fmap list_fmap spend_inputs] in *.
    { injection Hs as <-. split_and!; [constructor|constructor|constructor|done]. }
    fold (in_key i) in Hs. destruct (uk !! in_key i) as [o|] eqn:Ho; [|done].
    destruct (IH _ _ Hs) as (Hnd & Hpres & Hgone & Hsub).
    assert (Hsub' : ∀ k, is_Some (u' !! k) → k ≠ in_key i ∧ is_Some (uk !! k)).
    { intros k Hk. apply Hsub in Hk. unf. destruct Hk as [x Hk].
      apply lookup_delete_Some in Hk as [Hne Hk]. split; [done | by exists x]. }
    assert (Hpres' : Forall (λ k, k ≠ in_key i ∧ is_Some (uk !! k)) (in_key <$> ins)).
    { eapply Forall_impl; [exact Hpres|]. intros k [x Hk]. unf.
      apply lookup_delete_Some in Hk as [Hne Hk]. split; [done | by exists x]. }
    split_and!.
    - apply NoDup_cons. split; [|done]. intros Hin.
      by destruct (proj1 (Forall_forall _ _) Hpres' _ Hin) as [Hne _].
    - apply Forall_cons. split; [by exists o|]. eapply Forall_impl; [exact Hpres'|]. by intros k [_ Hk].
    - apply Forall_cons. split; [|done].
      destruct (u' !! in_key i) as [x|] eqn:Hx; [|done].
      destruct (Hsub' (in_key i)) as [Hne _]; [by exists x | done].
    - intros k Hk. by apply Hsub'.
  Qed.

  Lemma uto_apply_txs_in_NoDup (u0 : utxo) ts : ∀ uk u',
    uto_apply_txs sha uk ts = Some u' →
    Forall (λ k, is_Some (u0 !! k)) (txs_in_keys ts) → Forall (λ k, u0 !! k = None) (txs_out_keys ts) →
    NoDup (txs_in_keys ts) ∧ Forall (λ k, is_Some (uk !! k)) (txs_in_keys ts).
  Proof.
    induction ts as [|t ts IH]; intros uk u' Hs Hin Hout; cbn [txs_in_keys txs_out_keys uto_apply_txs] in *.
    { split; constructor. }
    unfold uto_apply_tx in Hs.
    destruct (spend_inputs (tx_inputs t) uk) as [u1|] eqn:Hu1; [|done].
    apply Forall_app in Hin as [Hin1 Hin2]. apply Forall_app in Hout as [Hout1 Hout2].
    destruct (IH _ _ Hs Hin2 Hout2) as [Hnd2 Hpres2].
    destruct (spend_inputs_inv _ _ _ Hu1) as (Hnd1 & Hpres1 & Hgone1 & Hsub1).
    (* a pending input is in the block-start set, hence not among the created keys, hence already in [u1] *)
    assert (Hpres2' : Forall (λ k, is_Some (u1 !! k)) (txs_in_keys ts)).
    { apply Forall_forall. intros k Hk.
      pose proof (proj1 (Forall_forall _ _) Hpres2 k Hk) as Hsome. cbn beta in Hsome.
      rewrite add_outputs_lookup_ne in Hsome; [done|].
      intros Hc. pose proof (proj1 (Forall_forall _ _) Hout1 k Hc) as Hn.
      pose proof (proj1 (Forall_forall _ _) Hin2 k Hk) as Hs0. cbn beta in *. rewrite Hn in Hs0. by destruct Hs0. }
    split.
    - apply NoDup_app. split_and!; [done| |done].
      intros k Hk1 Hk2.
      pose proof (proj1 (Forall_forall _ _) Hgone1 k Hk1) as Hn.
      pose proof (proj1 (Forall_forall _ _) Hpres2' k Hk2) as Hs1. cbn beta in *. rewrite Hn in Hs1. by destruct Hs1.
    - apply Forall_app. split; [done|].
      eapply Forall_impl; [exact Hpres2'|]. intros k. apply Hsub1.
  Qed.

  (* success of both folds on a block with fresh outputs forces premises (a) and (b) *)
  Theorem fresh_block_wf u0 p b u' p' :
    fresh_block u0 b → uto_apply_block sha u0 b = Some u' → pkb_apply_block sha u0 p b = Some p' →
    wf_block u0 b.
  Proof.
    intros [Hfr Hnd] Hu Hp. unfold uto_apply_block, pkb_apply_block in *.
    destruct (b_txs b) as [|cb rest] eqn:Hts; [done|].
    cbn [uto_apply_tx pkb_apply_tx txs_out_keys] in *.
    apply Forall_app in Hfr as Hfr'. destruct Hfr' as [_ Hfr2].
    pose proof (pkb_apply_txs_present _ _ _ _ Hp) as Ha.
    destruct (uto_apply_txs_in_NoDup u0 _ _ _ Hu Ha Hfr2) as [Hb _].
    split; rewrite Hts; cbn [tail txs_out_keys]; done.
  Qed.

  Lemma fresh_replay_wf chain : ∀ u p up,
    fresh_from u chain → replay sha u p chain = Some up → wf_from u chain.
  Proof.
    induction chain as [|b chain IH]; intros u p up Hfr Hr; cbn [replay wf_from fresh_from] in *; [done|].
    destruct Hfr as [Hb Hfr].
    destruct (pkb_apply_block sha u p b) as [p1|] eqn:Hp; [|done].
    destruct (uto_apply_block sha u b) as [u1|] eqn:Hu; [|done].
    split; [by eapply fresh_block_wf | by eapply IH].
  Qed.

  Theorem balances_consistent_fresh_only chain u p :
    fresh_chain chain → replay sha ∅ ∅ chain = Some (u, p) → consistent u p.
  Proof. intros Hfr Hr. eapply balances_consistent; [|exact Hr]. by eapply fresh_replay_wf. Qed.
End Proofs.

(* ------------------------------------------------------------------------------------------------ *)
(* non-vacuity: reward to key A; then a block whose second transaction spends it to keys B and C     *)

Module Example.
  Definition sha0 : bytes → bytes := λ b, b.
  Definition hdr : header :=
    mkHeader (mkSummary 0 [] [] 0 [] 0) (mkEvidence [] [] []).
  Definition keyA : bytes := [1%N].
  Definition keyB : bytes := [2%N].
  Definition keyC : bytes := [3%N].
  Definition cb1 : tx := mkTx [mkInput (mkOutref [] 0) (SigCoinbase 0 [])] [mkOutput 10 keyA].
  Definition cb2 : tx := mkTx [mkInput (mkOutref [] 0) (SigCoinbase 1 [])] [mkOutput 10 keyA].
  Definition pay : tx :=
    mkTx [mkInput (mkOutref (tx_id sha0 cb1) 0) (SigSecp [])] [mkOutput 4 keyB; mkOutput 6 keyC].
  Definition chain0 : list block := [mkBlock hdr [cb1]; mkBlock hdr [cb2; pay]].

  Local Ltac dec := apply (bool_decide_unpack _); vm_compute; exact I.
  (* [Forall (λ k, u !! k = None) ks] on concrete data ([output] has no decidable equality instance) *)
  Local Ltac fresh_tac := vm_compute; repeat constructor.
  Local Ltac wfb := split; cbn [b_txs tail]; [dec | dec | fresh_tac | dec].

  Lemma example_replay : is_Some (replay sha0 ∅ ∅ chain0).
  Proof. dec. Qed.

  Lemma example_wf : well_formed_chain sha0 chain0.
  Proof.
    unfold well_formed_chain, chain0. cbn [wf_from].
    split; [wfb|].
    destruct (uto_apply_block sha0 ∅ (mkBlock hdr [cb1])) as [u1|] eqn:Hu; [|done].
    assert (Hu1 : u1 = <[(tx_id sha0 cb1, 0%N) := mkOutput 10 keyA]> ∅).
    { cbn in Hu. by injection Hu as <-. }
    subst u1. clear Hu.
    split; [|by destruct (uto_apply_block _ _ _)].
    wfb.
  Qed.

  (* the resulting balances, computed: A holds the second reward, B and C what was paid to them *)
  Lemma example_balances :
    ∃ u p, replay sha0 ∅ ∅ chain0 = Some (u, p) ∧
           p !! keyA = Some (10%Z, [(tx_id sha0 cb2, 0%N)]) ∧
           p !! keyB = Some (4%Z, [(tx_id sha0 pay, 0%N)]) ∧
           p !! keyC = Some (6%Z, [(tx_id sha0 pay, 1%N)]) ∧
           consistent u p.
  Proof.
    destruct example_replay as [[u p] Hr].
    exists u, p. split; [done|].
    assert (Hc : consistent u p) by (eapply balances_consistent; [apply example_wf|exact Hr]).
    assert (Hp : p = default ∅ (snd <$> replay sha0 ∅ ∅ chain0)) by (by rewrite Hr).
    split_and!; [rewrite Hp; vm_compute; reflexivity ..| exact Hc].
  Qed.
  (* premise (c) is not redundant: with a colliding hash the replay succeeds but the balances are wrong.
     Two reward-only blocks whose reward transactions get the same id: the second reward overwrites the first
     in the unspent set, while key A keeps its 10 coins in the balances. *)
  Definition sha_const : bytes → bytes := λ _, [].
  Definition chain_bad : list block :=
    [mkBlock hdr [mkTx [] [mkOutput 10 keyA]]; mkBlock hdr [mkTx [] [mkOutput 5 keyB]]].

  Lemma freshness_needed :
    ∃ u p, replay sha_const ∅ ∅ chain_bad = Some (u, p) ∧ ¬ consistent u p ∧ ¬ fresh_chain sha_const chain_bad.
  Proof.
    assert (Hsome : is_Some (replay sha_const ∅ ∅ chain_bad)) by dec.
    destruct Hsome as [[u p] Hr]. exists u, p. split; [done|].
    assert (Hu : u = default ∅ (fst <$> replay sha_const ∅ ∅ chain_bad)) by (by rewrite Hr).
    assert (Hp : p = default ∅ (snd <$> replay sha_const ∅ ∅ chain_bad)) by (by rewrite Hr).
    assert (Hnc : ¬ consistent u p).
    { intros [H1 _].
      assert (HA : p !! keyA = Some (10%Z, [([], 0%N)])) by (rewrite Hp; vm_compute; reflexivity).
      apply H1 in HA as [HA _]. rewrite Hu in HA. vm_compute in HA. discriminate HA. }
    split; [done|].
    intros Hfr. apply Hnc. by eapply balances_consistent_fresh_only.
  Qed.
End Example.

